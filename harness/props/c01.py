"""C01 — the exact solver returns a minimum-cost (Ped)MEC solution with a matching witness.

Implementation: `whatshap.core.PedigreeDPTable` in-process (working-tree build).
Model: lean/WhVerif/Model/C01.lean (`dpCost`, `getAlleles`), spec: Spec/C01.lean (`totalCost`, `optCost`).

property predicate (ctx.fail):
  * reported cost == true minimum (`c01.brute`, plain enumeration in Lean, small instances; for larger ones the
    proved-optimal `dpCost` is the oracle and a difference is reported as correspondence first, then — since
    `dp_optimal` makes dpCost the true optimum — as a failure with the instance as replay)
  * the returned partition + transmission vector evaluate (under the spec objective) to exactly the reported cost
  * every super-read allele not flagged as tie agrees with every cost-optimal allele assignment of its column
    under the returned (partition, transmission) — checked by an independent Python enumeration
  * exception "Mendelian conflict"  <=>  no feasible solution
input conversion: the model is asked with the RAW input (the variants read back from the very ReadSet object the
  solver was constructed from, in ReadSet order, plus the `positions` argument); Lean's `mkInst` (model of
  `ColumnIterator`, Model/C01Input.lean) turns it into the column instance.  Cross-check on every case
  (ctx.disagree "c01.mkinst"): Lean's instance == the Python conversion `py_mkinst(raw)` == the generator's column
  form.  Rejected inputs (unsorted ReadSet, read with unsorted variants, read without variants): the constructor's
  exception must be the rejection reason `mkInst` gives.
correspondence (ctx.disagree): model cost == impl cost; model super-reads for the implementation's witness ==
  implementation's super-reads (tie flags included); table-based column cost == direct column cost.
compute_table as coded (`c01.ckpt`, Model/C01Ckpt.lean: stored backtrace tables, every floor(sqrt(n))-th column kept,
  backtrace by recomputation of the segment between two check-points, first strict minimum in Gray-code order):
  the returned partition, transmission vector and super reads are compared EXACTLY (ties included) on every solved
  instance; the long-thin stream (16-40 columns, k = 4..6) and the medium stream (up to 12 columns, k = 1..3) give
  several check-points per instance.
32-bit arithmetic (`c01.cost32`, Model/C01U32.lean): stream `u32` scales weights / recombination costs so that the
  cost sums lie on both sides of 2^32; the reported cost (or the conflict exception) must be what the wrap-around
  model computes, and below the proved bound `ubAll < UINT_MAX` (theorem `no_overflow`) it must be the true optimum.
  F30: `get_optimal_cost()` came back negative for optima >= 2^31 (cpp.pxd declared `int`), fixes/F30.patch.
result object (`gen_script`, Model/C01Query.lean `Table.run`, answers through `c01.ckpt` with `queries`): on EVERY generated
  instance the three public accessors of `whatshap.core.PedigreeDPTable` (get_super_reads, get_optimal_cost,
  get_optimal_partitioning — there are no others) are called in a random order, each at least once, with repetitions;
  in ~1/5 of the cases a second table is constructed on the SAME ReadSet and Pedigree objects while the first is alive
  (same parameters, other recombination costs, or the shared Pedigree's likelihoods ignored), the calls on both are
  interleaved and one may be destroyed while the other is still queried.  The property predicate is evaluated on the
  first answers AND on every other combination (cost answer, partition answer, super-read/transmission answer) the
  client can hold (`other_views`); every single answer is compared with the model's result object (ctx.disagree
  `c01.queries`).  Corpus / replay cases without `queries` use the classic order (super reads, cost, partition).
"""
import itertools, json, math

RULE = ("random (Ped)MEC instances: 1-2 unrelated individuals, trios, quartets; reads as intervals with gaps, alleles "
        "from a hidden truth plus noise, weights 1..40 with many equal weights (ties), trusted genotypes (consistent "
        "or random/conflicting) or phred likelihood triples, recombination costs 0..30, optional read-less columns "
        "via the positions argument, optional variants at positions that are no columns (skipped by the column iterator), "
        "optional positions=None (columns = covered positions); rejected ReadSets (unsorted, unsorted variants, empty read); long-thin instances for the sqrt(n) checkpointing; stream u32: weights / recombination costs scaled so that cost sums lie around 2^32; on every instance the result accessors (get_super_reads, get_optimal_cost, get_optimal_partitioning) are called in random order with repetitions, in ~1/5 of the cases on two tables alive at the same time on one ReadSet/Pedigree (interleaved calls, either may be destroyed first). Non-trivial = at least two "
        "reads sharing a column and at least two columns; distinct = distinct serialised instance")
ASSUMPTIONS = ["optimality of the reported cost is claimed for instances whose cost bound ubAll (all read weights + largest "
               "genotype costs + two recombinations per trio and column) is below UINT_MAX = 2^32-1 (theorem no_overflow); "
               "beyond it the solver's unsigned 32-bit sums wrap (modelled by dpCost32, compared, not a failure)",
               "reads are given sorted (ReadSet.sort()) as the solver requires"]
MANIFEST = dict(
    text="Lean 4 theorems about a model of the column DP (PedigreeDPTable): the DP value equals the minimum of the "
         "weighted (Ped)MEC objective over all bipartitions and transmission vectors for every instance (induction over "
         "columns via an abstract interface-DP theorem), Gray-code enumeration and incremental cost table lemmas; the "
         "model is tied to the working tree by running generated instances through the real PedigreeDPTable and the "
         "compiled model, and the property predicate (true minimum by enumeration, witness cost, tie flags, "
         "infeasibility) is evaluated on every implementation output",
    design_ref="DESIGN.md §5 C01",
    note="trusted: Lean kernel; hand-written model (now including compute_table's stored backtrace tables, sqrt-n "
         "check-pointing with recomputation, Gray-order tie-breaking, and the 32-bit wrap-around arithmetic); "
         "correspondence is differential testing (quick ≈1 500 instances, thorough ≈30 000 + exhaustive tiny spaces)",
    technique="Lean 4 proof (DP = brute-force optimum by induction over columns) + differential correspondence with brute-force oracle",
)


# ------------------------------------------------------------------------------------------------
# instance generation (plain dict, serialisable; the same dict drives impl and model)
# ------------------------------------------------------------------------------------------------

def gen_instance(rng, small=False, long_thin=False):
    kind = rng.choices(["single", "two", "trio", "quartet"], [55, 8, 27, 10])[0]
    if kind == "single":
        nind, trios = 1, []
    elif kind == "two":
        nind, trios = 2, []
    elif kind == "trio":
        order = rng.sample([0, 1, 2], 3)             # individual order in the pedigree is arbitrary
        nind, trios = 3, [[order[0], order[1], order[2]]]
    else:
        order = rng.sample([0, 1, 2, 3], 4)
        nind, trios = 4, [[order[0], order[1], order[2]], [order[0], order[1], order[3]]]
    if small:
        ncols = rng.randrange(1, 3 if len(trios) >= 2 else (4 if trios else 5))
        max_cov_total = 3 if len(trios) >= 2 else (4 if trios else 5)
        max_reads = max_cov_total
    elif long_thin:
        ncols = rng.randrange(16, 41)
        max_cov_total = 3
        max_reads = 60
    else:
        ncols = rng.randrange(1, 13)
        max_cov_total = rng.choice([2, 4, 6, 8]) if not trios else rng.choice([2, 4, 6])
        max_reads = 40
    # hidden truth: two haplotypes per individual (children inherit without recombination, mostly)
    truth = {}
    for i in range(nind):
        truth[i] = [[rng.randrange(2) for _ in range(ncols)] for _ in range(2)]
    for (f, m, c) in trios:
        truth[c] = [list(truth[f][rng.randrange(2)]), list(truth[m][rng.randrange(2)])]
    mode = rng.choice(["trusted", "trusted", "distrust"])
    conflict = rng.random() < 0.12
    geno = []
    for i in range(nind):
        per = []
        for c in range(ncols):
            if mode == "trusted":
                g = truth[i][0][c] + truth[i][1][c]
                if conflict and rng.random() < 0.3:
                    g = rng.randrange(3)
                per.append([0 if k == g else None for k in range(3)])
            else:
                per.append([rng.choice([0, 0, 3, 10, 25, 60]) for _ in range(3)])
        geno.append(per)
    weights = rng.choice([[1], [1, 2], [5, 10, 30], list(range(1, 41))])
    cov = [0] * ncols
    reads = []
    tries = 0
    n_target = rng.randrange(1, max_reads + 1)
    while len(reads) < n_target and tries < 10 * max_reads:
        tries += 1
        first = rng.randrange(ncols)
        last = min(ncols - 1, first + rng.choice([0, 1, 1, 2, 3, 5, 8]))
        if any(cov[c] + 1 > max_cov_total for c in range(first, last + 1)):
            continue
        ind = rng.randrange(nind)
        h = rng.randrange(2)
        entries = []
        for c in range(first, last + 1):
            if c not in (first, last) and rng.random() < 0.25:
                continue  # gap (BLANK)
            a = truth[ind][h][c]
            if rng.random() < 0.15:
                a = 1 - a
            entries.append([c, a, rng.choice(weights)])
        for c in range(first, last + 1):
            cov[c] += 1
        reads.append({"ind": ind, "first": first, "last": last, "entries": entries})
    reads.sort(key=lambda r: r["first"])
    recomb = [rng.choice([0, 0, 1, 5, 17, 30]) for _ in range(ncols)]
    # optional read-less columns stay in the instance (they exist through the `positions` argument)
    inst = {"ncols": ncols, "reads": reads, "nind": nind, "trios": trios, "geno": geno, "recomb": recomb,
            "mode": mode, "use_positions": True}
    if rng.random() < 0.25:
        # variants at genomic positions that are not columns (strictly inside the read's span): the column iterator
        # walks over them; they must not influence anything
        off = {}
        for k, r in enumerate(reads):
            if r["last"] > r["first"] and rng.random() < 0.5:
                cs = [c for c in range(r["first"], r["last"]) if rng.random() < 0.5]
                if cs:
                    off[str(k)] = [[(c + 1) * 10 + 5, rng.randrange(2), rng.choice(weights)] for c in cs]
        if off:
            inst["offgrid"] = off
    elif rng.random() < 0.15 and all(any(e[0] == c for r in reads for e in r["entries"]) for c in range(ncols)):
        inst["use_positions"] = False   # positions=None: the columns are the positions covered by some variant
    elif rng.random() < 0.2:
        # re-phasing history: some reads get their later entries only after a first solver run on the same ReadSet
        reuse = {}
        for k, r in enumerate(reads):
            if len(r["entries"]) >= 2 and rng.random() < 0.5:
                cut = rng.randrange(1, len(r["entries"]))
                reuse[str(k)] = [list(e) for e in r["entries"][cut:]]
        if reuse:
            inst["reuse"] = reuse
    return inst


# ------------------------------------------------------------------------------------------------
# running the implementation
# ------------------------------------------------------------------------------------------------

ACCESSORS = ("sr", "cost", "part")     # get_super_reads, get_optimal_cost, get_optimal_partitioning: every public
#                                        result accessor of whatshap.core.PedigreeDPTable
CLASSIC = [["A", "new"], ["A", "sr"], ["A", "cost"], ["A", "part"]]   # the order whatshap's own CLI happens to use


def gen_script(rng, inst):
    """what a client does with the result object(s): a list of steps [table, op], op in new / sr / cost / part / del.
    Every accessor at least once per table, in random order, with repetitions; with some probability a second table
    B is constructed on the SAME ReadSet and Pedigree objects (same parameters, or other recombination costs, or the
    genotype likelihoods of the shared Pedigree ignored) while A is alive, the calls on the two are interleaved, and
    one of them may be destroyed while the other is still queried.  Returns (script, tableB overrides or None)"""
    def calls(tb):
        qs = [rng.choice(ACCESSORS) for _ in range(rng.choice([0, 0, 1, 2, 3, 5]))] + list(ACCESSORS)
        rng.shuffle(qs)
        return [[tb, "new"]] + [[tb, q] for q in qs]
    a = calls("A")
    if rng.random() < 0.2:
        a.append(["A", "del"])
    if rng.random() >= 0.22:
        return a, None
    tableB = {}
    if inst["mode"] == "distrust" and rng.random() < 0.3:
        tableB = {"mode": "trusted", "geno": [[[None, 0, None] for _ in range(inst["ncols"])] for _ in range(inst["nind"])]}
    elif inst["trios"] and rng.random() < 0.6:
        tableB = {"recomb": [rng.choice([0, 0, 1, 5, 17, 30]) for _ in range(inst["ncols"])]}
    b = calls("B")
    if rng.random() < 0.5:
        b.append(["B", "del"])
    merged, ia, ib = [], 0, 0
    while ia < len(a) or ib < len(b):
        if ib >= len(b) or (ia < len(a) and rng.random() < 0.5):
            merged.append(a[ia]); ia += 1
        else:
            merged.append(b[ib]); ib += 1
    return merged, tableB


def run_impl(inst, script=None, tableB=None):
    from whatshap.core import Read, ReadSet, Pedigree, PedigreeDPTable, NumericSampleIds, Genotype, PhredGenotypeLikelihoods
    ids = NumericSampleIds()
    names = [f"ind{i}" for i in range(inst["nind"])]
    rs = ReadSet()
    reuse = inst.get("reuse") or {}
    for k, r in enumerate(inst["reads"]):
        rd = Read(f"read{k:04d}", 50, 0, ids[names[r["ind"]]])
        later = {tuple(e) for e in reuse.get(str(k), [])}
        vs = [((c + 1) * 10, a, w) for c, a, w in r["entries"] if (c, a, w) not in later]
        vs += [tuple(v) for v in (inst.get("offgrid") or {}).get(str(k), [])]
        for p, a, w in sorted(vs):
            rd.add_variant(p, a, w)
        rs.add(rd)
    # the instance lists reads already sorted by first position; ReadSet.sort() is stable w.r.t. that key only up
    # to ties, so we read the final order back
    rs.sort()
    if inst.get("reuse"):
        # history: the SAME ReadSet object has been phased before with fewer variants per read, then extended in
        # place and re-sorted (ids / entry bookkeeping from the first run must not leak into the second)
        run_on_readset(inst, rs, ids, names, first=True)
        by_name = {rd.name: rd for rd in rs}
        for k, extra in inst["reuse"].items():
            rd = by_name[f"read{int(k):04d}"]
            for c, a, w in extra:
                rd.add_variant((c + 1) * 10, a, w)
            rd.sort()
        rs.sort()
    return run_on_readset(inst, rs, ids, names, script=script, tableB=tableB)


def query(dp, op, nind):
    """one accessor call, result in serialisable form"""
    if op == "cost":
        return dp.get_optimal_cost()
    if op == "part":
        return list(dp.get_optimal_partitioning())
    superreads, tv = dp.get_super_reads()
    sr = []
    for i in range(nind):
        a, b = list(superreads[i])
        sr.append([[(v.position // 10 - 1, v.allele) for v in a], [(v.position // 10 - 1, v.allele) for v in b]])
    return {"superreads": sr, "tau": list(tv)}


def first_answers(answers):
    """the (cost, partition, super reads + transmission vector) a client holds that uses the FIRST answer of each
    accessor"""
    out = {}
    for op, v in answers:
        if op == "cost":
            out.setdefault("cost", v)
        elif op == "part":
            out.setdefault("partition", v)
        elif "tau" not in out:
            out["tau"], out["superreads"] = v["tau"], v["superreads"]
    return out


def other_views(answers, limit=7):
    """every OTHER combination of (cost answer, partition answer, super-read answer) a client can hold after the calls:
    [] when each accessor answered the same every time.  [(note, view)]"""
    by = {"cost": [], "part": [], "sr": []}
    for n, (op, v) in enumerate(answers):
        if all(v != w for _, w in by[op]):
            by[op].append((n, v))
    out = []
    for (i, c), (j, p), (k, s) in itertools.product(by["cost"], by["part"], by["sr"]):
        if (i, j, k) == (by["cost"][0][0], by["part"][0][0], by["sr"][0][0]):
            continue
        out.append((f"cost as answered by accessor call #{i}, partition by call #{j}, super reads / transmission vector "
                    f"by call #{k} of {[op for op, _ in answers]}",
                    {"cost": c, "partition": p, "tau": s["tau"], "superreads": s["superreads"]}))
    return out[:limit]


def run_on_readset(inst, rs, ids, names, first=False, cost_only=False, script=None, tableB=None):
    from whatshap.core import Pedigree, PedigreeDPTable, Genotype, PhredGenotypeLikelihoods
    order = [int(rd.name[4:]) for rd in rs]
    ped = Pedigree(ids)
    distrust = inst["mode"] == "distrust"
    for i in range(inst["nind"]):
        gts, gls = [], []
        for c in range(inst["ncols"]):
            g = inst["geno"][i][c]
            if distrust:
                gts.append(Genotype([0, 1]))
                gls.append(PhredGenotypeLikelihoods([float(x) for x in g]))
            else:
                k = [j for j in range(3) if g[j] == 0]
                gts.append(Genotype({0: [0, 0], 1: [0, 1], 2: [1, 1]}[k[0]]))
        ped.add_individual(names[i], gts, gls if distrust else None)
    for f, m, c in inst["trios"]:
        ped.add_relationship(names[f], names[m], names[c])
    positions = [(c + 1) * 10 for c in range(inst["ncols"])] if inst.get("use_positions", True) else None
    if first:
        try:
            PedigreeDPTable(rs, inst["recomb"], ped, distrust, positions)
        except RuntimeError:
            pass
        return None
    raw = readset_raw(rs, {ids[names[i]]: i for i in range(inst["nind"])}, positions, inst)
    if cost_only:
        try:
            dp = PedigreeDPTable(rs, inst["recomb"], ped, distrust, positions)
            return {"cost": dp.get_optimal_cost(), "order": order, "raw": raw}
        except RuntimeError as e:
            if "Mendelian conflict" in str(e):
                return {"error": "mendelian-conflict", "order": order, "raw": raw}
            raise
    # the client's script: tables A (and B) live on the SAME ReadSet and Pedigree objects
    params = {"A": inst, "B": {**inst, **(tableB or {})}}
    tables, out = {}, {}
    for tb, op in (script or CLASSIC):
        if op == "new":
            pi = params[tb]
            out[tb] = {"answers": [], "order": order,
                       "raw": raw if tb == "A" else {**raw, "geno": pi["geno"], "recomb": pi["recomb"]}}
            try:
                tables[tb] = PedigreeDPTable(rs, pi["recomb"], ped, pi["mode"] == "distrust", positions)
            except RuntimeError as e:
                if "Mendelian conflict" not in str(e):
                    raise
                out[tb]["error"] = "mendelian-conflict"
        elif op == "del":
            tables.pop(tb, None)
        elif tb in tables:
            out[tb]["answers"].append([op, query(tables[tb], op, inst["nind"])])
    tables.clear()
    for tb, o in out.items():
        if "error" in o:
            o.pop("answers")
        else:
            o.update(first_answers(o["answers"]))
    res = out["A"]
    if "B" in out:
        res["B"] = out["B"]
    return res


def gen_big(rng):
    """an instance whose cost sums lie around 2^32 (both sides): weights, and sometimes recombination costs, of a
    small/medium instance are scaled so that the no-overflow bound `ubAll` lands in [0.2, 2.5] * 2^32.  Genotype
    costs stay small (a `double` beyond UINT_MAX converted to `unsigned int` is undefined behaviour)."""
    if rng.random() < 0.4:
        # forced errors: homozygous trusted genotypes and reads carrying the other allele, so that the OPTIMUM itself
        # (not only the bound) is huge: optimum = sum of the weights of the disagreeing entries
        ncols = rng.randrange(1, 4)
        target = int((2 ** 32) * rng.choice([0.4, 0.55, 0.8, 0.99, 1.0, 1.01, 1.3, 2.2]))
        hom = [rng.choice([0, 2]) for _ in range(ncols)]
        reads = []
        for _ in range(rng.randrange(2, 7)):
            first = rng.randrange(ncols); last = rng.randrange(first, ncols)
            reads.append({"ind": 0, "first": first, "last": last,
                          "entries": [[c, rng.choice([0, 1]), 1] for c in range(first, last + 1)]})
        reads.sort(key=lambda r: r["first"])
        bad = [e for r in reads for e in r["entries"] if e[1] != hom[e[0]] // 2]
        for e in bad:
            e[2] = min(max(1, target // len(bad)) + rng.choice([0, 0, 1]), 2 ** 31 - 1)
        for r in reads:
            for e in r["entries"]:
                if e not in bad:
                    e[2] = rng.choice([1, 30, 2 ** 20, 2 ** 30])
        return {"ncols": ncols, "reads": reads, "nind": 1, "trios": [],
                "geno": [[[0 if k == hom[c] else None for k in range(3)] for c in range(ncols)]],
                "recomb": [0] * ncols, "mode": "trusted", "use_positions": True}
    inst = gen_instance(rng, small=rng.random() < 0.5)
    inst.pop("offgrid", None); inst.pop("reuse", None)
    inst["use_positions"] = True
    tot = sum(e[2] for r in inst["reads"] for e in r["entries"]) or 1
    target = int((2 ** 32) * rng.choice([0.2, 0.6, 0.9, 0.99, 1.0, 1.01, 1.2, 2.5]))
    share = rng.choice([1.0, 1.0, 0.7, 0.3]) if inst["trios"] else 1.0
    f = max(1, int(target * share) // tot)
    for r in inst["reads"]:
        for e in r["entries"]:
            e[2] = min(e[2] * f + rng.choice([0, 0, 1, 7]), 2 ** 31 - 1)     # Read.add_variant takes a C int
    if inst["trios"] and share < 1.0:
        rtot = 2 * len(inst["trios"]) * (sum(inst["recomb"]) or 1)
        g = max(1, int(target * (1 - share)) // rtot)
        inst["recomb"] = [min(x * g, 2 ** 32 - 1) for x in inst["recomb"]]
    return inst


def run_cost_only(inst):
    """constructor + get_optimal_cost only (no backtrace results are read)"""
    from whatshap.core import Read, ReadSet, NumericSampleIds
    ids = NumericSampleIds()
    names = [f"ind{i}" for i in range(inst["nind"])]
    rs = ReadSet()
    for k, r in enumerate(inst["reads"]):
        rd = Read(f"read{k:04d}", 50, 0, ids[names[r["ind"]]])
        for c, a, w in r["entries"]:
            rd.add_variant((c + 1) * 10, a, w)
        rs.add(rd)
    rs.sort()
    return run_on_readset(inst, rs, ids, names, cost_only=True)


def readset_raw(rs, ind_of, positions, inst):
    """the solver's real input, read back from the ReadSet object itself: reads in ReadSet order with the pedigree
    index of their sample and their variants at genomic positions; `positions` as passed (None = default)"""
    return {"positions": positions,
            "reads": [{"ind": ind_of[rd.sample_id], "variants": [[v.position, v.allele, v.quality] for v in rd]}
                      for rd in rs],
            "nind": inst["nind"], "trios": inst["trios"], "geno": inst["geno"], "recomb": inst["recomb"]}


def py_mkinst(raw):
    """independent Python rendering of ColumnIterator's conversion (None = rejected)"""
    positions = raw["positions"]
    if positions is None:
        positions = sorted({v[0] for r in raw["reads"] for v in r["variants"]})
    if any(a >= b for a, b in zip(positions, positions[1:])):
        return None
    col = {p: i for i, p in enumerate(positions)}
    reads, prev = [], 0
    for r in raw["reads"]:
        vs = r["variants"]
        if not vs or vs[0][0] < prev or any(a[0] >= b[0] for a, b in zip(vs, vs[1:])):
            return None
        if vs[0][0] not in col or vs[-1][0] not in col:
            return None
        prev = vs[0][0]
        reads.append({"ind": r["ind"], "first": col[vs[0][0]], "last": col[vs[-1][0]],
                      "entries": [[col[p], a, w] for p, a, w in vs if p in col]})
    return {"ncols": len(positions), "reads": reads, "nind": raw["nind"], "trios": raw["trios"],
            "geno": raw["geno"], "recomb": raw["recomb"]}


def ask_bounded(model, reqs, limit=40000):
    """`ask_many` in batches whose serialised requests stay below the pipe capacity, so that the write of a batch
    never blocks: `c01.mkinst` answers are whole instances, and a model blocked on a full stdout while the harness is
    blocked writing further requests would be a deadlock"""
    out, batch, size = [], [], 0
    for r in reqs:
        n = len(json.dumps(r, separators=(",", ":"))) + 1
        if batch and (size + n > limit or len(batch) >= 200):
            out += model.ask_many(batch)
            batch, size = [], 0
        batch.append(r)
        size += n
    if batch:
        out += model.ask_many(batch)
    return out


REJECT_MESSAGES = {"reads-unsorted": "reads in ReadSet are not sorted", "variants-unsorted": "unsorted variants",
                   "empty-read": "No variants present"}


def run_rejected(rng):
    """a ReadSet the constructor must refuse (only the exception paths: the assert paths would abort the
    interpreter).  Returns (raw, message of the RuntimeError or None)"""
    from whatshap.core import Read, ReadSet, Pedigree, PedigreeDPTable, NumericSampleIds, Genotype
    ncols = rng.randrange(2, 7)
    kind = rng.choice(["unsorted-reads", "unsorted-reads", "unsorted-variants", "empty-read", "mixed", "mixed", "fine"])
    ids = NumericSampleIds()
    rs = ReadSet()
    nreads = rng.randrange(1, 6)
    for k in range(nreads):
        rd = Read(f"read{k:04d}", 50, 0, ids["ind0"])
        cols = sorted(rng.sample(range(ncols), rng.randrange(1, ncols + 1)))
        if kind in ("unsorted-variants", "mixed") and len(cols) >= 2 and rng.random() < 0.6:
            rng.shuffle(cols)
        if kind in ("empty-read", "mixed") and rng.random() < 0.3:
            cols = []
        for c in cols:
            rd.add_variant((c + 1) * 10, rng.randrange(2), rng.randrange(1, 30))
        rs.add(rd)
    if kind in ("unsorted-variants", "empty-read", "fine") or rng.random() < 0.3:
        rs.sort()
    ped = Pedigree(ids)
    ped.add_individual("ind0", [Genotype([0, 1])] * ncols, None)
    positions = [(c + 1) * 10 for c in range(ncols)]
    inst = {"nind": 1, "trios": [], "geno": [[[None, 0, None]] * ncols], "recomb": [0] * ncols}
    raw = readset_raw(rs, {ids["ind0"]: 0}, positions, inst)
    try:
        PedigreeDPTable(rs, inst["recomb"], ped, False, positions)
        return raw, None
    except RuntimeError as e:
        return raw, str(e)


def reorder(inst, order):
    """instance with reads in the solver's order"""
    if order == list(range(len(order))):
        return inst
    j = dict(inst)
    j["reads"] = [inst["reads"][k] for k in order]
    j.pop("reuse", None)
    if inst.get("offgrid"):
        j["offgrid"] = {str(n): inst["offgrid"][str(k)] for n, k in enumerate(order) if str(k) in inst["offgrid"]}
    return j


def model_inst(inst):
    return {k: inst[k] for k in ("ncols", "reads", "nind", "trios", "geno", "recomb")}


# ------------------------------------------------------------------------------------------------
# independent Python oracle for one column (assignments and their costs)
# ------------------------------------------------------------------------------------------------

def h2p_py(inst, t):
    nind, trios = inst["nind"], inst["trios"]
    child_of = {}
    for k, (f, m, c) in enumerate(trios):
        child_of[c] = k
    m = {}
    p = 0
    for i in range(nind):
        if i not in child_of:
            m[i] = (p, p + 1); p += 2

    def rec(i):
        if i in m:
            return m[i]
        k = child_of[i]
        f, mo, _ = trios[k]
        pf, pm = rec(f), rec(mo)
        m[i] = (pf[0] if (t >> (2 * k)) & 1 else pf[1], pm[0] if (t >> (2 * k + 1)) & 1 else pm[1])
        return m[i]
    for i in range(nind):
        rec(i)
    return m, p


def column_assignments(inst, c, beta, t):
    """[(alpha, cost)] over admissible assignments for column c under bipartition beta (list over all reads)"""
    m, npart = h2p_py(inst, t)
    out = []
    for alpha in range(1 << npart):
        cost, ok = 0, True
        for i in range(inst["nind"]):
            k = ((alpha >> m[i][0]) & 1) + ((alpha >> m[i][1]) & 1)
            g = inst["geno"][i][c][k]
            if g is None:
                ok = False; break
            cost += g
        if not ok:
            continue
        for r, rd in enumerate(inst["reads"]):
            for cc, a, w in rd["entries"]:
                if cc == c:
                    part = m[rd["ind"]][1 if beta[r] else 0]
                    if ((alpha >> part) & 1) != a:
                        cost += w
        out.append((alpha, cost))
    return out, m


def check_superreads(inst, impl):
    """non-tie alleles must agree with every optimal assignment; tie iff optimal assignments disagree... the
    property only demands the first; returns list of failure strings"""
    fails = []
    beta = impl["partition"]
    for c in range(inst["ncols"]):
        t = impl["tau"][c]
        ass, m = column_assignments(inst, c, beta, t)
        if not ass:
            fails.append(f"column {c}: returned transmission {t} admits no allele assignment")
            continue
        best = min(x[1] for x in ass)
        opt = [a for a, x in ass if x == best]
        for i in range(inst["nind"]):
            for h in range(2):
                col = dict(impl["superreads"][i][h])
                al = col.get(c)
                if al is None:
                    fails.append(f"column {c}: super-read of individual {i} has no entry"); continue
                if al == 3:
                    continue
                vals = {(a >> m[i][h]) & 1 for a in opt}
                if vals != {al}:
                    fails.append(f"column {c} individual {i} haplotype {h}: allele {al} not flagged as tie but "
                                 f"cost-optimal assignments give {sorted(vals)}")
    return fails


def sr_by_column(inst, superreads):
    """[[allele0, allele1] per individual] per column — the model's form of the super reads"""
    return [[[dict(superreads[i][0]).get(c), dict(superreads[i][1]).get(c)] for i in range(inst["nind"])]
            for c in range(inst["ncols"])]


# ------------------------------------------------------------------------------------------------


# ------------------------------------------------------------------------------------------------
# the pedigree glue: numeric ids != insertion order, relationships in any order, deep pedigrees, fractional likelihoods
# ------------------------------------------------------------------------------------------------

PED_SHAPES = {   # roles; trios in role space (father, mother, child)
    "single": (1, []), "two": (2, []), "trio": (3, [(0, 1, 2)]), "quartet": (4, [(0, 1, 2), (0, 1, 3)]),
    "trio+unrelated": (4, [(0, 1, 2)]), "three-generations": (5, [(0, 1, 2), (2, 3, 4)]),
    "three-children": (5, [(0, 1, 2), (0, 1, 3), (0, 1, 4)]),
    "three-generations-two-grandchildren": (6, [(0, 1, 2), (2, 3, 4), (2, 3, 5)]),
}


def gen_ped_case(rng):
    shape = rng.choice(list(PED_SHAPES))
    n, rtrios = PED_SHAPES[shape]
    order = rng.sample(range(n), n)                  # order[k] = role added k-th  => index of role = position
    index_of_role = {r: k for k, r in enumerate(order)}
    num = rng.sample(range(0, 64), n)                # numeric id of INDEX k (arbitrary, != index in general)
    rel_order = rng.sample(rtrios, len(rtrios))      # relationships in any order (grandchild's trio may come first)
    trios = [[index_of_role[f], index_of_role[m], index_of_role[c]] for f, m, c in rel_order]
    ncols = rng.randrange(1, 4 if len(trios) < 3 else 2)
    distrust = rng.random() < 0.6
    den = rng.choice([1, 4]) if distrust else 1
    truth = {}
    for r in range(n):
        truth[r] = [[rng.randrange(2) for _ in range(ncols)] for _ in range(2)]
    for f, m, c in rtrios:
        truth[c] = [list(truth[f][rng.randrange(2)]), list(truth[m][rng.randrange(2)])]
    gts, glnum = [], []
    for k in range(n):
        r = order[k]
        gts.append([truth[r][0][c] + truth[r][1][c] for c in range(ncols)])
        glnum.append([[rng.choice([0, 0, 1, 2, 3, 4, 5, 7, 10, 13, 40, 41]) * (1 if den == 4 else 1) for _ in range(3)]
                      for c in range(ncols)])
    max_reads = 4 if len(trios) <= 1 else 3
    reads = []
    for _ in range(rng.randrange(1, max_reads + 1)):
        first = rng.randrange(ncols)
        last = min(ncols - 1, first + rng.choice([0, 1, 2]))
        k = rng.randrange(n)
        h = rng.randrange(2)
        entries = []
        for c in range(first, last + 1):
            if c not in (first, last) and rng.random() < 0.3:
                continue
            a = truth[order[k]][h][c]
            if rng.random() < 0.2:
                a = 1 - a
            entries.append([c, a, rng.choice([1, 2, 5, 9])])
        reads.append({"ind": k, "first": first, "last": last, "entries": entries})
    reads.sort(key=lambda r: r["first"])
    # the calls: individuals in index order, each relationship somewhere after its three members
    calls = [["ind", k] for k in range(n)]
    for ti, tr in enumerate(trios):
        pos = max(i for i, cl in enumerate(calls) if cl[0] == "ind" and cl[1] in tr) + 1
        last_rel = max([i for i, cl in enumerate(calls) if cl[0] == "rel"] + [-1]) + 1   # keep the triple order
        calls.insert(rng.randrange(max(pos, last_rel), len(calls) + 1), ["rel", ti])
    return {"stream": "pedigree", "shape": shape, "num": num, "trios": trios, "ncols": ncols, "distrust": distrust,
            "den": den, "gts": gts, "glnum": glnum, "reads": reads, "calls": calls,
            "recomb": [rng.choice([0, 1, 3, 8]) for _ in range(ncols)]}


def ped_py_inst(case):
    """the solver's instance in index space, computed here (index = position of the add_individual call)"""
    n = len(case["num"])
    if case["distrust"]:
        geno = [[[x // case["den"] for x in case["glnum"][k][c]] for c in range(case["ncols"])] for k in range(n)]
    else:
        geno = [[[0 if j == case["gts"][k][c] else None for j in range(3)] for c in range(case["ncols"])] for k in range(n)]
    return {"ncols": case["ncols"], "reads": case["reads"], "nind": n, "trios": case["trios"], "geno": geno,
            "recomb": case["recomb"]}


def run_ped_impl(case):
    from whatshap.core import Read, ReadSet, Pedigree, PedigreeDPTable, Genotype, PhredGenotypeLikelihoods
    n = len(case["num"])
    from whatshap.core import NumericSampleIds
    of_num = {case["num"][k]: f"s{k}" for k in range(n)}
    names = NumericSampleIds()          # hands out 0, 1, 2, … in the order of first use: burn the numbers in between
    for v in range(max(case["num"]) + 1):
        assert names[of_num.get(v, f"unused{v}")] == v
    rs = ReadSet()
    for j, r in enumerate(case["reads"]):
        rd = Read(f"read{j:04d}", 50, 0, case["num"][r["ind"]])
        for c, a, w in r["entries"]:
            rd.add_variant((c + 1) * 10, a, w)
        rs.add(rd)
    rs.sort()
    order = [int(rd.name[4:]) for rd in rs]
    ped = Pedigree(names)
    GT = {0: [0, 0], 1: [0, 1], 2: [1, 1]}
    for kind, x in case["calls"]:
        if kind == "ind":
            gts = [Genotype(GT[g]) for g in case["gts"][x]]
            gls = [PhredGenotypeLikelihoods([v / case["den"] for v in t]) for t in case["glnum"][x]] if case["distrust"] else None
            ped.add_individual(f"s{x}", gts, gls)
        else:
            f, m, c = case["trios"][x]
            ped.add_relationship(f"s{f}", f"s{m}", f"s{c}")
    text = str(ped)
    obs = {"len": len(ped), "variant_count": ped.variant_count,
           "ids": [int(t.split(",")[1]) for t in text.split("individuals (index,id):")[1].split("\n")[0].split()],
           "triples": [[int(v) for v in t.strip("()").split(",")]
                       for t in text.split("triples by index (father,mother,child):")[1].split("\n")[0].split()],
           "genotype_by_id": [[ped.genotype(f"s{k}", c).get_index() if hasattr(ped.genotype(f"s{k}", c), "get_index")
                               else sum(ped.genotype(f"s{k}", c).as_vector()) for c in range(case["ncols"])] for k in range(n)],
           "gl_by_id": [[(lambda g: None if g is None else [round(v * case["den"]) for v in g])(ped.genotype_likelihoods(f"s{k}", c))
                         for c in range(case["ncols"])] for k in range(n)]}
    positions = [(c + 1) * 10 for c in range(case["ncols"])]
    out = {"order": order, "ped": obs,
           "raw_reads": [{"sample": rd.sample_id, "variants": [[v.position, v.allele, v.quality] for v in rd]} for rd in rs]}
    try:
        dp = PedigreeDPTable(rs, case["recomb"], ped, case["distrust"], positions)
    except RuntimeError as e:
        if "Mendelian conflict" not in str(e):
            raise
        out["error"] = "mendelian-conflict"
        return out
    sr = query(dp, "sr", n)
    superreads, _tv = dp.get_super_reads()
    out.update(cost=dp.get_optimal_cost(), partition=list(dp.get_optimal_partitioning()), tau=sr["tau"],
               superreads=sr["superreads"], sr_ids=[[r.sample_id for r in superreads[i]] for i in range(n)])
    return out


def run(ctx):
    rng = ctx.rng
    pending = []   # one entry per (table, view of its answers): dict(inst, impl, raw, brute, case, req={op: index}, …)
    reqs = []

    def case_of(inst, qx):
        return {"instance": {**model_inst(inst), "mode": inst["mode"], "use_positions": inst.get("use_positions", True),
                             **({"offgrid": inst["offgrid"]} if inst.get("offgrid") else {})}, **qx}

    def enqueue(inst, impl, raw, brute, case, share=None, note="", exact=True, queriesB=None, answers_key="answers"):
        """requests of one table's answers; `share` = the entry of the same raw input whose mkinst / brute / ckpt
        answers are reused (the other views of one table; a second table constructed with the same parameters, whose
        accessor calls travel as `queriesB` in the first one's `c01.ckpt` request)"""
        req = dict(share["req"]) if share else {}

        def add(name, **kw):
            req[name] = len(reqs)
            reqs.append({"op": "c01." + name, "raw": raw, **kw})
        if not share:
            add("mkinst")
            if brute:
                add("brute")
            # with `queries` the answer carries the model's DP value (`cost`) as well
            add("ckpt", queries=[op for op, _ in impl.get("answers") or []],
                **({"queriesB": queriesB} if queriesB is not None else {}))
        if "error" not in impl:
            add("eval", beta=[bool(x) for x in impl["partition"]], tau=impl["tau"])
        e = {"inst": inst, "impl": impl, "raw": raw, "brute": brute and "brute" in req, "case": case, "req": req,
             "note": note, "exact": exact, "answers_key": answers_key}
        pending.append(e)
        return e

    def submit(inst_raw, brute, script=None, tableB=None):
        if script is None:
            script, tableB = gen_script(rng, inst_raw)
        qx = {} if script == CLASSIC else {"queries": script, **({"tableB": tableB} if tableB is not None else {})}
        ctx.inflight({"instance": {**model_inst(inst_raw), "mode": inst_raw["mode"],
                                   "use_positions": inst_raw.get("use_positions", True),
                                   **({k: inst_raw[k] for k in ("reuse", "offgrid") if inst_raw.get(k)})}, **qx})
        impl = run_impl(inst_raw, script, tableB)
        inst = reorder(inst_raw, impl["order"])
        ctx.evaluated()
        ncov = max([0] + [sum(1 for r in inst["reads"] if r["first"] <= c <= r["last"]) for c in range(inst["ncols"])])
        if ncov >= 2 and inst["ncols"] >= 2:
            ctx.nontrivial(json.dumps(model_inst(inst), sort_keys=True))
        ctx.dist("pedigree", f"{inst['nind']}ind/{len(inst['trios'])}trios")
        ctx.dist("mode", inst["mode"]); ctx.dist("ncols", inst["ncols"]); ctx.dist("max_coverage", ncov)
        ctx.dist("outcome", "conflict" if "error" in impl else "solved")
        ctx.dist("readset_history", "re-phased after in-place extension" if inst_raw.get("reuse") else "fresh")
        mi = model_inst(inst)
        raw = impl.pop("raw")
        ctx.dist("positions_argument", "given" if raw["positions"] is not None else "None (default)")
        ctx.dist("off_column_variants", "some" if inst_raw.get("offgrid") else "none")
        pm = py_mkinst(raw)
        if pm != mi:
            ctx.disagree("c01.mkinst(python conversion vs generator's column form)", {"raw": raw}, mi, pm)
        implB = impl.pop("B", None)
        tabs = [("A", inst, impl, raw)]
        if implB is not None:
            tabs.append(("B", {**inst, **(tableB or {})}, implB, implB.pop("raw")))
            ctx.dist("tables_on_one_readset", "2, B: " + ("same parameters" if not tableB else
                                                          "other " + "/".join(sorted(tableB))))
        else:
            ctx.dist("tables_on_one_readset", "1")
        mainA = None
        for tb, ti, timpl, traw in tabs:
            case = case_of(inst, {**qx, **({"table": tb} if implB is not None else {})})
            if tb == "A":
                sameB = implB is not None and not tableB
                main = mainA = enqueue(ti, timpl, traw, brute, case,
                                       queriesB=[op for op, _ in implB.get("answers") or []] if sameB else None)
            elif not tableB:
                main = enqueue(ti, timpl, traw, brute, case, share=mainA, answers_key="answersB")
            else:
                main = enqueue(ti, timpl, traw, brute, case)
            if "error" in timpl:
                continue
            ops = [op for op, _ in timpl["answers"]]
            ctx.dist("accessor_calls_on_one_table", len(ops))
            ctx.dist("first_accessor_called", ops[0])
            ctx.dist("partition_asked", ("before" if ops.index("part") < ops.index("sr") else "after") + " the super reads, "
                     + ("once" if ops.count("part") == 1 else "repeatedly"))
            # every other combination of answers the client may hold must satisfy the property as well
            for note, view in other_views(timpl["answers"]):
                ctx.dist("accessor_answers", "an accessor answered differently on a later call")
                enqueue(ti, {**view, "order": timpl["order"]}, traw, brute, case, share=main, note=" [" + note + "]",
                        exact=False)
        if len(ctx.samples) < 3 and inst["ncols"] >= 2 and len(inst["reads"]) >= 3:
            ctx.sample({"instance": mi, "impl": {k: v for k, v in impl.items() if k not in ("order", "answers")},
                        "accessor_calls": script})
        if len(reqs) >= 300:
            flush()

    def flush():
        if not reqs:
            return
        ans = ask_bounded(ctx.model, reqs)
        for e in pending:
            inst, impl, raw, brute, case, req, note = (e[k] for k in ("inst", "impl", "raw", "brute", "case", "req", "note"))
            if ans[req["mkinst"]].get("inst") != model_inst(inst):
                ctx.disagree("c01.mkinst", {**case, "raw": raw}, model_inst(inst), ans[req["mkinst"]])
                continue
            ck = ans[req["ckpt"]]
            mcost = ck["cost"]
            if "error" in impl:
                if ck.get("path") is not None:
                    ctx.disagree("c01.ckpt(path)", case, "mendelian-conflict", ck)
                if mcost is not None:
                    ctx.disagree("c01.cost", case, "mendelian-conflict", mcost)
                    if brute and ans[req["brute"]]["cost"] is not None:
                        ctx.fail("solver raised 'Mendelian conflict' but a feasible solution exists "
                                 f"(true minimum {ans[req['brute']]['cost']})", case, key="spurious-conflict")
                continue
            ev = ans[req["eval"]]
            if mcost != impl["cost"]:
                ctx.disagree("c01.cost", case, impl["cost"], mcost)
            shown = {k: v for k, v in impl.items() if k != "answers"}
            if ev["cost"] != impl["cost"]:
                ctx.fail(f"returned partition/transmission evaluate to {ev['cost']} under the MEC objective, "
                         f"reported cost is {impl['cost']}" + note, {**case, "impl": shown}, key="witness-cost")
            if brute:
                b = ans[req["brute"]]["cost"]
                if b != impl["cost"]:
                    ctx.fail(f"reported cost {impl['cost']} but the true minimum (plain enumeration) is {b}" + note,
                             {**case, "impl": shown}, key="not-optimal")
            elif mcost is not None and impl["cost"] != mcost:
                # dp_optimal: the model's value IS the optimum; the instance is the replay
                ctx.fail(f"reported cost {impl['cost']} but the proved-optimal model DP gives {mcost}" + note,
                         {**case, "impl": shown}, key="not-optimal")
            for f in check_superreads(inst, impl):
                ctx.fail("super-read: " + f + note, {**case, "impl": shown}, key="nontie-allele")
            # correspondence of super reads (tie flags included)
            msr = ev["superreads"]
            isr = sr_by_column(inst, impl["superreads"])
            if msr != isr:
                ctx.disagree("c01.eval.superreads", case, isr, msr)
            if not e["exact"]:
                continue      # a later answer that differs from the first one: reported through `c01.queries` below
            # compute_table as coded (stored backtrace tables, sqrt(n) check-pointing, backtrace by recomputation,
            # first minimum in Gray-code order): the very index path's partition / transmission vector / super reads
            ctx.dist("checkpoint_spacing_k", ck.get("k"))
            if ck.get("path") is None:
                ctx.disagree("c01.ckpt(path)", case, {"partition": impl["partition"], "tau": impl["tau"]}, ck)
            else:
                same = (ck["tau"] == impl["tau"] and [bool(x) for x in ck["beta"]] == [bool(x) for x in impl["partition"]]
                        and ck["superreads"] == isr)
                ctx.dist("ckpt_witness", "identical to the model of compute_table" if same else "different")
                if not same:
                    # an optimal witness that is not the one the coded tie-breaking yields still satisfies the
                    # property; it means the model no longer mirrors compute_table (named so in the report)
                    optimal = ev["cost"] == impl["cost"] == mcost and msr == isr
                    ctx.disagree("c01.ckpt(tie-breaking only: the returned witness is optimal but not the first minimum "
                                 "in visiting order)" if optimal else "c01.ckpt(witness)", case,
                                 {"partition": impl["partition"], "tau": impl["tau"], "superreads": isr},
                                 {"partition": ck["beta"], "tau": ck["tau"], "superreads": ck["superreads"], "k": ck["k"]})
                # the result object (Model/C01Query.lean, `Table.run`): EVERY accessor call of the client's sequence,
                # whatever its position and however often repeated, answers what the model's object answers
                ian = [{"q": "cost", "cost": v} if op == "cost" else {"q": "part", "beta": [bool(x) for x in v]} if op == "part"
                       else {"q": "sr", "superreads": sr_by_column(inst, v["superreads"]), "tau": v["tau"]}
                       for op, v in impl["answers"]]
                man = ck.get(e["answers_key"])
                if man != ian:
                    k = next((n for n, (x, y) in enumerate(zip(ian, man or [])) if x != y), 0)
                    ctx.disagree(f"c01.queries(accessor call #{k} '{ian[k]['q']}' of the sequence "
                                 f"{[a['q'] for a in ian]} does not answer what the result object holds)", case,
                                 ian[k], (man or [None] * len(ian))[k])
            ctx.validated()
        pending.clear(); reqs.clear()

    def run_u32(insts):
        big = []
        for inst in insts:
            ctx.inflight({"instance": {**model_inst(inst), "mode": inst["mode"], "use_positions": True}, "stream": "u32"})
            impl = run_cost_only(inst)
            big.append((reorder(inst, impl["order"]), impl))
        breqs = []
        for inst, impl in big:
            breqs.append({"op": "c01.cost32", "raw": impl["raw"]})
            breqs.append({"op": "c01.cost", "raw": impl["raw"]})
        bans = ask_bounded(ctx.model, breqs)
        for n, (inst, impl) in enumerate(big):
            a32, aex = bans[2 * n], bans[2 * n + 1]
            ctx.evaluated()
            case = {"instance": {**model_inst(inst), "mode": inst["mode"], "use_positions": True}, "stream": "u32"}
            got = "mendelian-conflict" if "error" in impl else impl["cost"]
            if isinstance(got, int) and got < 0:
                # F30: `get_optimal_score()` returns `unsigned int`, cpp.pxd declared it `int`
                ctx.fail(f"get_optimal_cost() returned the negative number {got} (the optimum is {aex['cost']})", case,
                         key="F30-cost-reported-negative")
                got %= 2 ** 32            # the C++ value, for the comparisons below
            want32 = "mendelian-conflict" if a32["throws"] else a32["cost32"]
            exact = "mendelian-conflict" if aex["cost"] is None else aex["cost"]
            safe = a32["ub"] < 2 ** 32 - 1
            ctx.dist("u32_bound", "ubAll < UINT_MAX" if safe else "ubAll >= UINT_MAX")
            if got != want32:
                ctx.disagree("c01.cost32", case, got, a32)
            if safe:
                if want32 != exact:
                    ctx.disagree("c01.cost32(no_overflow: 32-bit model vs unbounded model below the bound)", case, exact, a32)
                if got != exact:
                    ctx.fail(f"cost sums stay below UINT_MAX (bound {a32['ub']}) but the reported result {got} is not the "
                             f"optimum {exact}", case, key="not-optimal")
                ctx.validated()
            elif got != exact:
                ctx.dist("u32_beyond_bound", "wrapped (result differs from the optimum)")
                ctx.observe("32-bit overflow beyond the proved bound: solver result differs from the true optimum "
                            "(as the wrap-around model predicts)")
            else:
                ctx.dist("u32_beyond_bound", "still exact")


    def run_ped(cases):
        """stream `pedigree`: the API level (Model/C01Pedigree.lean, op c01.pedigree)"""
        todo = []
        for case in cases:
            ctx.inflight(case)
            impl = run_ped_impl(case)
            ctx.evaluated()
            n = len(case["num"])
            inst = dict(ped_py_inst(case)); inst["reads"] = [inst["reads"][k] for k in impl["order"]]
            ops = [["ind", case["num"][x], case["gts"][x], case["glnum"][x] if case["distrust"] else [None] * case["ncols"]]
                   if kind == "ind" else ["rel"] + [case["num"][v] for v in case["trios"][x]] for kind, x in case["calls"]]
            probes = []
            for c in range(case["ncols"]):
                act = [r for r in inst["reads"] if r["first"] <= c <= r["last"]]
                probes.append({"c": c, "p": (c + 1) * 10, "bits": [rng.random() < 0.5 for _ in act],
                               "t": rng.randrange(4 ** len(case["trios"]))})
            todo.append((case, impl, inst, {"op": "c01.pedigree", "ops": ops, "den": case["den"], "reads": impl["raw_reads"],
                                            "positions": [(c + 1) * 10 for c in range(case["ncols"])], "recomb": case["recomb"],
                                            "distrust": case["distrust"], "ask": case["num"], "nvar": case["ncols"],
                                            "probe": probes}))
            ctx.dist("ped_shape", case["shape"]); ctx.dist("ped_mode", "distrust den=%d" % case["den"] if case["distrust"] else "trusted")
            ctx.dist("ped_ids_equal_indices", case["num"] == list(range(n)))
        if not todo:
            return
        a1 = ctx.model.ask_many([t[3] for t in todo])
        reqs2 = []
        for (case, impl, inst, rq), a in zip(todo, a1):
            mi = model_inst(inst)
            reqs2.append({"op": "c01.brute", "inst": mi})
            reqs2.append({"op": "c01.ckpt", "inst": a.get("inst") or mi, "queries": ["cost"]})
            reqs2.append({"op": "c01.eval", "inst": mi, "beta": [bool(x) for x in impl.get("partition", [])],
                          "tau": impl.get("tau", [0] * case["ncols"])})
        a2 = ask_bounded(ctx.model, reqs2)
        for k, ((case, impl, inst, rq), a) in enumerate(zip(todo, a1)):
            n = len(case["num"])
            mi = model_inst(inst)
            brute, ck, ev = a2[3 * k], a2[3 * k + 1], a2[3 * k + 2]
            mp, ip = a.get("ped") or {}, impl["ped"]
            want = {"ids": case["num"], "triples": case["trios"], "index_of": list(range(n)),
                    "genotype_by_id": case["gts"],
                    "gl_by_id": case["glnum"] if case["distrust"] else [[None] * case["ncols"]] * n}
            # the real object's accessors vs the model's object vs what was put in
            if ip["ids"] != mp.get("ids") or ip["triples"] != mp.get("triples") or ip["len"] != len(mp.get("ids") or []) \
                    or ip["genotype_by_id"] != mp.get("genotype_by_id") or ip["gl_by_id"] != mp.get("gl_by_id"):
                ctx.disagree("c01.pedigree(object state: ids / index triples / accessors by id)", case, ip, mp)
            if any(mp.get(f) != want[f] for f in want):
                ctx.disagree("c01.pedigree(model object vs the data of the calls)", case, want, mp)
            if a.get("inst") != mi:
                ctx.disagree("c01.pedigree(resolved instance)", case, mi, a.get("inst"))
            for pr in a.get("probes") or []:
                if pr["glue"] != pr["inst"]:
                    ctx.disagree("c01.pedigree(column cost read off the objects vs colCost of the resolved instance)", case,
                                 pr["inst"], pr["glue"])
            if "error" in impl:
                if brute["cost"] is not None:
                    ctx.fail(f"solver raised 'Mendelian conflict' but a feasible solution exists (true minimum {brute['cost']})",
                             case, key="spurious-conflict")
                if ck.get("cost") is not None:
                    ctx.disagree("c01.pedigree(cost)", case, "mendelian-conflict", ck.get("cost"))
                continue
            shown = {f: impl[f] for f in ("cost", "partition", "tau", "superreads")}
            if brute["cost"] != impl["cost"]:
                ctx.fail(f"reported cost {impl['cost']} but the true minimum (plain enumeration) is {brute['cost']} "
                         f"[pedigree {case['shape']}, numeric ids {case['num']}]", {**case, "impl": shown}, key="not-optimal")
            if ev["cost"] != impl["cost"]:
                ctx.fail(f"returned partition/transmission evaluate to {ev['cost']} under the MEC objective, reported cost is "
                         f"{impl['cost']} [pedigree {case['shape']}, numeric ids {case['num']}]", {**case, "impl": shown},
                         key="witness-cost")
            for f in check_superreads({**mi, "mode": "distrust" if case["distrust"] else "trusted"}, impl):
                ctx.fail("super-read: " + f, {**case, "impl": shown}, key="nontie-allele")
            if impl["sr_ids"] != [[case["num"][i]] * 2 for i in range(n)]:
                ctx.disagree("c01.pedigree(index_to_id: sample ids of the super reads)", case,
                             impl["sr_ids"], [[case["num"][i]] * 2 for i in range(n)])
            isr = sr_by_column(mi, impl["superreads"])
            if ck.get("cost") != impl["cost"]:
                ctx.disagree("c01.pedigree(cost of the resolved instance)", case, impl["cost"], ck.get("cost"))
            if ck.get("path") is not None and (ck["tau"] != impl["tau"] or [bool(x) for x in ck["beta"]] !=
                                               [bool(x) for x in impl["partition"]] or ck["superreads"] != isr):
                ctx.disagree("c01.pedigree(witness of the resolved instance)", case,
                             {"partition": impl["partition"], "tau": impl["tau"], "superreads": isr},
                             {"partition": ck["beta"], "tau": ck["tau"], "superreads": ck["superreads"]})
            ctx.nontrivial(json.dumps(case, sort_keys=True))
            ctx.validated()

    # ---- replay / corpus
    cases = [c for _, c in ctx.corpus()]
    if ctx.replay:
        cases = [json.load(open(ctx.replay))["case"]]
    for c in cases:
        if c.get("stream") == "pedigree":
            run_ped([c])
            continue
        inst = c["instance"]
        if c.get("stream") == "u32":
            run_u32([inst])
            continue
        small = len(inst["reads"]) <= 6 and inst["ncols"] <= 4 and len(inst["trios"]) <= 1
        submit(inst, brute=small, script=c.get("queries") or CLASSIC, tableB=c.get("tableB"))
    flush()
    if ctx.replay:
        return

    n_small = (1200 if ctx.quick else 8000) * ctx.scale
    n_mid = (1200 if ctx.quick else 20000) * ctx.scale
    n_long = (60 if ctx.quick else 600) * ctx.scale
    for _ in range(n_small):
        submit(gen_instance(rng, small=True), brute=True)
    for _ in range(n_mid):
        submit(gen_instance(rng), brute=False)
    for _ in range(n_long):
        submit(gen_instance(rng, long_thin=True), brute=False)
    flush()

    # ---- deep columns (17-20 reads over one column: at and beyond the CLI's coverage limits 15 / 23).  2^20 table rows are
    # out of reach for the enumeration and for the executable model's DP, so these instances are PLANTED: reads copied from
    # two hidden haplotypes, a few with errors.  Checked: the returned (partition, transmission) evaluates (c01.eval, linear)
    # to the reported cost; the reported cost does not exceed the cost of the planted partition (0 without errors); the
    # super reads are those of the returned partition.
    deep = []
    for _ in range((6 if ctx.quick else 60) * ctx.scale):
        ncols = rng.randrange(3, 7)
        nreads = rng.randrange(17, 21)
        truth = [[rng.randrange(2) for _ in range(ncols)]]
        truth.append([1 - a for a in truth[0]])
        n_err = rng.choice([0, 0, 1, 3])
        reads, planted = [], []
        for k in range(nreads):
            last = rng.randrange(1, ncols)
            h = rng.randrange(2) if k < nreads - 4 else 1     # late reads (high bits of the index) on the "1" side
            reads.append({"ind": 0, "first": 0, "last": last, "entries": [[c, truth[h][c], rng.choice([3, 10, 30])] for c in range(last + 1)]})
            planted.append(h)
        for _e in range(n_err):
            r = rng.choice(reads); e = rng.choice(r["entries"]); e[1] = 1 - e[1]
        inst = {"ncols": ncols, "reads": reads, "nind": 1, "trios": [], "geno": [[[None, 0, None] for _ in range(ncols)]],
                "recomb": [0] * ncols, "mode": "trusted", "use_positions": True}
        script = [st for st in gen_script(rng, inst)[0] if st[0] == "A"]     # one table (2^20 rows each), random calls
        qx = {"queries": script}
        ctx.inflight({"instance": {**model_inst(inst), "mode": "trusted", "use_positions": True}, **qx})
        impl = run_impl(inst, script)
        ctx.evaluated(); ctx.dist("max_coverage", nreads); ctx.dist("deep_planted", f"{n_err} errors")
        raw = impl.pop("raw")
        inst = reorder(inst, impl["order"])
        planted = [planted[k] for k in impl["order"]]
        deep.append((inst, impl, planted, raw, qx, ""))
        for note, view in other_views(impl["answers"]):
            deep.append((inst, view, planted, raw, qx, " [" + note + "]"))
    dreqs = []
    for inst, impl, planted, raw, qx, note in deep:
        dreqs.append({"op": "c01.eval", "raw": raw, "beta": [bool(x) for x in impl["partition"]], "tau": impl["tau"]})
        dreqs.append({"op": "c01.eval", "raw": raw, "beta": [bool(x) for x in planted], "tau": [0] * inst["ncols"]})
    dans = ctx.model.ask_many(dreqs)
    for k, (inst, impl, planted, raw, qx, note) in enumerate(deep):
        case = {"instance": {**model_inst(inst), "mode": "trusted", "use_positions": True}, **qx}
        shown = {k2: v for k2, v in impl.items() if k2 != "answers"}
        ev, pl = dans[2 * k], dans[2 * k + 1]
        if ev["cost"] != impl["cost"]:
            ctx.fail(f"returned partition/transmission evaluate to {ev['cost']} under the MEC objective, reported cost is "
                     f"{impl['cost']} ({len(inst['reads'])} reads cover one column)" + note, {**case, "impl": shown},
                     key="witness-cost")
        if pl["cost"] is not None and impl["cost"] > pl["cost"]:
            ctx.fail(f"reported cost {impl['cost']} exceeds the cost {pl['cost']} of the planted bipartition: not the minimum"
                     + note, {**case, "impl": shown, "planted": planted}, key="not-optimal")
        isr = sr_by_column(inst, impl["superreads"])
        if ev["superreads"] != isr:
            ctx.disagree("c01.eval.superreads", case, isr, ev["superreads"])
        ctx.nontrivial(json.dumps(model_inst(inst), sort_keys=True))

    # ---- inputs the constructor refuses: the exception must be the rejection reason of `mkInst`
    rej = [run_rejected(rng) for _ in range((80 if ctx.quick else 1500) * ctx.scale)]
    for (raw, msg), a in zip(rej, ask_bounded(ctx.model, [{"op": "c01.mkinst", "raw": r} for r, _ in rej])):
        ctx.evaluated()
        why = a.get("why")
        ctx.dist("constructor", why or "accepted")
        ok = (msg is None and a.get("inst") is not None and a["inst"] == py_mkinst(raw)) or \
             (msg is not None and a.get("inst") is None and REJECT_MESSAGES.get(why, "\0") in msg and py_mkinst(raw) is None)
        if not ok:
            ctx.disagree("c01.mkinst(rejection)", {"raw": raw}, msg or "accepted", a if msg is None else why)

    # ---- 32-bit arithmetic: cost sums around 2^32.  Below the bound `ubAll < UINT_MAX` (theorem `no_overflow`) the
    # real cost must be the exact optimum; everywhere it must be what the wrap-around model `dpCost32`/`throws32` says
    run_u32([gen_big(rng) for _ in range((150 if ctx.quick else 3000) * ctx.scale)])

    # ---- the pedigree glue (ids != indices, any insertion / relationship order, deep pedigrees, fractional likelihoods)
    run_ped([gen_ped_case(rng) for _ in range((120 if ctx.quick else 3000) * ctx.scale)])

    # ---- table-based column cost == direct column cost (the incremental table of the code)
    tab_reqs, tab_meta = [], []
    for _ in range((200 if ctx.quick else 3000) * ctx.scale):
        inst = gen_instance(rng, small=rng.random() < 0.5)
        if not inst["reads"]:
            continue
        c = rng.randrange(inst["ncols"])
        act = [r for r, rd in enumerate(inst["reads"]) if rd["first"] <= c <= rd["last"]]
        bits = [rng.random() < 0.5 for _ in act]
        t = rng.randrange(4 ** len(inst["trios"]))
        tab_reqs.append({"op": "c01.colcost", "inst": model_inst(inst), "c": c, "bits": bits, "t": t})
    for rq, a in zip(tab_reqs, ctx.model.ask_many(tab_reqs)):
        ctx.evaluated()
        if a["direct"] != a["table"]:
            ctx.disagree("c01.colcost(table vs direct)", rq, a["table"], a["direct"])

    # ---- Gray code: the model's enumeration is a Gray code of all 2^n values (sanity of the executable model)
    for n in range(0, 9):
        g = ctx.model.ask("c01.gray", n=n)
        codes = [x[0] for x in g]
        ok = len(codes) == 2 ** n and len(set(codes)) == 2 ** n and codes[0] == 0 and g[0][1] == -1 and all(
            codes[i] ^ codes[i - 1] == 1 << g[i][1] for i in range(1, len(codes)))
        ctx.evaluated()
        if not ok:
            ctx.disagree("c01.gray", {"n": n}, "gray code of all 2^n values", g)

    if not ctx.quick:
        # exhaustive: single individual, <= 3 reads x <= 3 columns over {0,1,-} with weights {1,2}, trusted het
        cnt = 0
        for ncols in (1, 2, 3):
            cells = [None, (0, 1), (1, 1), (0, 2), (1, 2)]
            rows = []
            for row in itertools.product(cells, repeat=ncols):
                idx = [i for i, x in enumerate(row) if x is not None]
                if not idx:
                    continue
                rows.append(row)
            for nreads in (1, 2, 3):
                combos = itertools.combinations_with_replacement(range(len(rows)), nreads)
                for combo in combos:
                    if nreads == 3 and ncols == 3 and rng.random() > 0.08:
                        continue   # subsample the largest stratum
                    reads = []
                    for ri in combo:
                        row = rows[ri]
                        idx = [i for i, x in enumerate(row) if x is not None]
                        reads.append({"ind": 0, "first": idx[0], "last": idx[-1],
                                      "entries": [[i, row[i][0], row[i][1]] for i in idx]})
                    reads.sort(key=lambda r: r["first"])
                    for mode in ("trusted", "distrust"):
                        geno = [[[None, 0, None] if mode == "trusted" else [7, 0, 3] for _ in range(ncols)]]
                        inst = {"ncols": ncols, "reads": reads, "nind": 1, "trios": [], "geno": geno,
                                "recomb": [0] * ncols, "mode": mode, "use_positions": True}
                        submit(inst, brute=True); cnt += 1
        flush()
        ctx.extra["exhaustive_tiny_single_individual_instances"] = cnt

"""C13 — unphase accepts every VCF, removes all phase information and nothing else.

Per generated VCF (plain text, arbitrary call shapes) the REAL CLI `whatshap unphase` is run (twice: on the
file and on its own output) and
  * oracle (independent of the Lean model, on the raw text of input and output): exit status 0; same number
    of data lines; the eight fixed columns identical; FORMAT = input FORMAT minus HP/PQ/PS in the same order;
    per call no `|`, same multiset of allele tokens, every other field the same string; second application
    gives identical data lines;
  * correspondence: the output, parsed field by field, equals `WhVerif.C13.unphase` (the function the theorems
    are about) applied to the parsed input; when the CLI raises, the faithful model of HEAD's loop
    (`unphaseCur`) must predict exactly that exception class (this is how F2 is recognised as F2).
History cases: a simulated scenario is phased with the real `whatshap phase`; unphase(phased) must give the same
data lines as unphase(original), and a second unphase must change nothing.
Since round E04 also: the header (`unphaseHeader`: lines of the output in order, once and twice; no phase-tag definition left,
no other line lost), idempotence judged on the whole output including the header (F61), every 4th file also through
`whatshap unphase -` (standard input), and the bridge `ofC04` from the C04 record model (`c13.of_c04`) on every input.
Since round E12 also: header variants (0-3 `##phasing` lines anywhere, `##PHASING`, INFO fields named PS/HP, definitions of
unused phase tags left out), the kept header lines compared as a list (order and multiplicity), bgzipped input, and *edit
pairs*: a generated file and a random phase-only edit of it (alleles of complete genotypes permuted, separators, HP/PQ/PS and
`##phasing` added / changed / deleted, every ploidy and call shape) — the model's executable checker `editB` certifies the
edit (`edit_checker_iff`) and the real `whatshap unphase` must give the same records for both (`unphase_of_checked_edit`).
Since round 7 (seed C13-e) also: what the header says about phasing is drawn independently of what the records use — every subset
of {`##phasing` line, PS, HP, PQ definition} present or absent, records with `|` only (population-phaser style), with or
without PS / HP / PQ values (undeclared keys are accepted by htslib), every ploidy; *header twins*: the same records under two
different such headers must unphase to the same data lines (`file_records_whatever_header`); the histories through
`whatshap phase` start from headers that declare none / some / all of the phase tags.
Since round 10 also the TEXT level (`Model/C13Text.lean`): every data line of every file goes through `c13.line`
(`unphaseLineText`): FORMAT and sample columns of the model's output text = those of the CLI's output line byte for byte; the first
eight columns of the CLI's line = those of a plain pysam copy of the file (htslib re-renders QUAL / INFO numbers; not whatshap);
`unphaseLineText` of the copy's line = the CLI's line as a whole; the model's `parseLine` = the harness' own text reader, before
and after.  Every third file is also given as BCF (written with pysam): same data lines.  *polyphase histories*: a polyploid
scenario phased with `whatshap polyphase`, then unphased, must give the data lines of the unphased input.
"""
import collections, concurrent.futures, json, os, re, shutil, subprocess

import pysam

from harness.gen import sim
from harness.gen import c13_vcf as G
from harness.gen import c04_file as F4
from harness.gen import c15_poly

RULE = ("case = one generated VCF (1-3 contigs, 0-4 samples, up to 14*scale records; ploidy 1-5 per call, '.', "
        "partially missing, phased/unphased/mixed separators, records without GT, FORMAT fields DP GQ AD FT PS PQ HP in "
        "random order, dropped trailing fields, multi-ALT/indel/symbolic ALT; header with 0-3 ##phasing lines anywhere, "
        "##PHASING, INFO fields named PS/HP, definitions of unused phase tags left out; given as path, on stdin or bgzipped) "
        "run through `whatshap unphase` twice, or one phase->unphase->phase->unphase history on a simulated scenario, or a file "
        "and a random phase-only edit of it (alleles of complete genotypes permuted, separators, HP/PQ/PS and ##phasing added / "
        "changed / deleted; every ploidy) both unphased; in 55 % of the files the header has a random subset of {##phasing, PS, HP, "
        "PQ definition} whatever the records use (tags all / none / some, genotypes mixed / all `|` / all `/` in any allele order), "
        "half of those also as a twin with another subset; non-trivial iff the file given to unphase has >= 1 data "
        "line and >= 1 phased genotype or HP/PQ/PS value; distinct = distinct input text")
MANIFEST = dict(
    text="Lean 4 theorems about a model of run_unphase's record loop written with Python primitives that raise where "
         "CPython/pysam raise (HEAD's loop and the loop after fixes/F2.patch): the repaired loop is total and equals the "
         "specification function, which leaves no phase information, preserves allele multisets and every other field, is "
         "idempotent and is invariant under phase-only edits; HEAD's loop raises exactly on the characterised call shapes. "
         "Tied to the working tree by running the real CLI on generated VCFs and comparing field by field with the model, "
         "plus a text-level oracle of the property on every (input, output) pair and phase/unphase/unphase histories; "
         "unphase_header is modelled (only phase lines/definitions go, idempotent with a single phasing line; F61 witness), "
         "and the edit of C04's writer model is proved to be a phase-only edit (unphase after whatshap phase = unphase); "
         "round E12: exact extent of F61 (idempotent iff <= 1 ##phasing line), kept header lines unchanged as a list, every FORMAT "
         "definition an output record needs survives, file-level idempotence, an executable checker deciding the phase-only-edit "
         "relation (certifies the edits the check applies to real files of every ploidy) and invariance along any history of "
         "phase / unphase steps",
    design_ref="DESIGN.md §5 C13",
    note="trusted: Lean kernel, axioms ⊆ {propext, Classical.choice, Quot.sound}; hand-written model; htslib/pysam parsing "
         "and serialisation are outside the model (the harness reads input and output as plain text); well-formed = GT first "
         "in FORMAT, FORMAT column present when the header has samples; header lines are compared by (key, ID) / (key, text); the "
         "phase->unphase clause is proved across the C04 writer model (unphase_after_whatshap_phase) for runs without genotype changes",
    technique="Lean 4 model with exception-raising primitives + totality/idempotence/permutation proofs + CLI differential run",
)
ASSUMPTIONS = [
    "well-formed VCF: GT, if present, is the first FORMAT key (VCF spec); data lines of a file with samples have a FORMAT "
    "column (pysam refuses to write records without one); values are written in htslib's canonical spelling so that "
    "'unchanged' can be judged on text",
    "the phase->unphase clause is checked on files phased by `whatshap phase` from unphased input (re-phasing already phased "
    "input is C09's subject, defect F4)",
]
WORKERS = 6
_SEEN = set()


def err_class(stderr):
    m = None
    for line in stderr.strip().splitlines()[::-1]:
        m = re.match(r"^(?:\w+\.)*(\w+(?:Error|Exception))\b", line.strip())
        if m:
            return m.group(1)
    return "unknown"


def data_lines(text):
    return [l for l in text.split("\n") if l and not l.startswith("#")]


def has_phase_info(recs):
    for r in recs:
        fmt = r["format"] or []
        if any(k in G.PHASE_TAGS for k in fmt):
            return True
        if "GT" in fmt:
            i = fmt.index("GT")
            if any("|" in c[i] for c in r["calls"]):
                return True
    return False


def oracle(in_text, out_text):
    """the property predicates on (input, output) text; returns list of (what, key)"""
    fails = []
    _, s_in, r_in = G.parse_vcf_text(in_text)
    _, s_out, r_out = G.parse_vcf_text(out_text)
    if s_in != s_out:
        fails.append((f"sample columns changed: {s_in} -> {s_out}", "samples-changed"))
    if len(r_in) != len(r_out):
        fails.append((f"number of records changed: {len(r_in)} -> {len(r_out)}", "records-changed"))
        return fails
    for n, (a, b) in enumerate(zip(r_in, r_out)):
        where = f"record {n} ({a['fixed'][0]}:{a['fixed'][1]})"
        if a["fixed"] != b["fixed"]:
            fails.append((f"{where}: fixed columns changed {a['fixed']} -> {b['fixed']}", "fixed-changed"))
        fa, fb = a["format"] or [], b["format"] or []
        left = [k for k in fb if k in G.PHASE_TAGS]
        if left:
            fails.append((f"{where}: phase tag(s) {left} left in FORMAT", "phase-tag-left"))
        if [k for k in fa if k not in G.PHASE_TAGS] != [k for k in fb if k not in G.PHASE_TAGS]:
            fails.append((f"{where}: FORMAT keys changed {fa} -> {fb}", "format-changed"))
            continue
        if len(a["calls"]) != len(b["calls"]):
            fails.append((f"{where}: number of calls changed", "calls-changed"))
            continue
        for s, (ca, cb) in enumerate(zip(a["calls"], b["calls"])):
            da, db = dict(zip(fa, ca)), dict(zip(fb, cb))
            for k in fb:
                if k in G.PHASE_TAGS:
                    continue
                if k == "GT":
                    if "|" in db[k]:
                        fails.append((f"{where} sample {s}: phased genotype {db[k]} in the output", "phased-gt-left"))
                    ta = collections.Counter(da[k].replace("|", "/").split("/"))
                    tb = collections.Counter(db[k].replace("|", "/").split("/"))
                    if ta != tb:
                        fails.append((f"{where} sample {s}: allele multiset changed {da[k]} -> {db[k]}", "alleles-changed"))
                elif da[k] != db[k]:
                    fails.append((f"{where} sample {s}: field {k} changed {da[k]} -> {db[k]}", "field-changed"))
    return fails


def header_vs_records(in_text, recs):
    """which phase-related lines the header has / what the records carry (input distribution)"""
    h = [l for l in in_text.split("\n") if l.startswith("##")]
    decl = [t for t in G.PHASE_TAGS if any(l.startswith(f"##FORMAT=<ID={t},") for l in h)]
    if any(l.startswith("##phasing=") for l in h):
        decl.append("phasing")
    used = sorted({k for r in recs for k in (r["format"] or []) if k in G.PHASE_TAGS})
    pipe = any("|" in c[0] for r in recs if (r["format"] or [])[:1] == ["GT"] for c in r["calls"])
    return f"header[{','.join(decl) or '-'}] records[{','.join(used + (['|'] if pipe else [])) or '-'}]"


def header_observations(ctx, in_text, out_text):
    h_in = [l for l in in_text.split("\n") if l.startswith("##")]
    h_out = [l for l in out_text.split("\n") if l.startswith("##")]
    removable = lambda l: l.startswith("##phasing=") or any(l.startswith(f"##FORMAT=<ID={t},") for t in G.PHASE_TAGS)
    for l in h_in:
        if not removable(l) and l not in h_out:
            ctx.observe("header line of the input missing in the output: " + l[:60])
    for l in h_out:
        if removable(l):
            ctx.observe("header still declares phase information: " + l[:40])


def hlines(text):
    """header lines as the model's `HLine`s: structured lines by (key, ID), other lines by (key, text)"""
    out, seen = [], set()
    for l in text.split("\n"):
        if not l.startswith("##"):
            continue
        m = re.match(r"##([^=]+)=(.*)$", l)
        if not m:
            continue
        key, val = m.group(1), m.group(2)
        mid = re.match(r"<ID=([^,>]+)", val)
        if mid:
            out.append({"key": key, "id": mid.group(1), "text": ""})
        else:
            if l in seen:          # htslib drops a generic line that repeats an earlier one verbatim (before whatshap sees it)
                continue
            seen.add(l)
            out.append({"key": key, "id": None, "text": val})
    return out


def hkey(h):
    return (h["key"], h["id"], h["text"])


def unphase_stdin(overlay, text):
    """`whatshap unphase -` reading the VCF from standard input"""
    env = dict(os.environ)
    env["PYTHONPATH"] = overlay
    env.pop("WHATSHAP_VERIF_TRACE", None)
    r = subprocess.run([sim.PY, "-m", "whatshap", "unphase", "-"], input=text, env=env, capture_output=True, text=True, timeout=600)
    return r.returncode, r.stdout, r.stderr


def pysam_copy(path):
    """the file read and written back by pysam without any change (what htslib alone does to the text)"""
    with pysam.VariantFile(path) as reader:
        out = path + ".copy.vcf"
        recs = list(reader)      # first: htslib adds the definitions of undeclared keys to the header while it reads
        with pysam.VariantFile(out, "w", header=reader.header) as w:
            for rec in recs:
                w.write(rec)
    text = open(out).read()
    os.remove(out)
    return text


def to_bcf(path):
    out = path + ".bcf"
    with pysam.VariantFile(path) as reader:
        recs = list(reader)
        with pysam.VariantFile(out, "wb", header=reader.header) as w:
            for rec in recs:
                w.write(rec)
    return out


def poly_case(rng):
    """a small polyploid scenario for `whatshap polyphase` (serialised), some input genotypes written in descending order"""
    k = rng.choice([3, 3, 4])
    sc = c15_poly.PolyScenario.generate(rng, ploidy=k, n_variants=(4, 8), cov_per_hap=(4, 7), read_len=(80, 220))
    for name in sc.contigs:
        for i in range(len(sc.variants[name])):
            if rng.random() < 0.3:
                g = sc.gt_of("S1", name, i)
                sc.gt_override[f"S1|{name}|{i}"] = "/".join(reversed(g.split("/")))
    return {"kind": "polyhistory", "scenario": sc.as_case(), "ploidy": k}


def c04_records(samples, recs):
    """records of parse_vcf_text in the JSON of the C04 model (for the bridge `ofC04`)"""
    out = []
    for r in recs:
        fmt = r["format"]
        out.append(F4.text_frec(r["fixed"], ":".join(fmt) if fmt else None, [":".join(c) for c in r["calls"]], samples))
    return out


def rng_tag(case):
    """the tag of the second `whatshap phase` of a history: the other one than in the first run"""
    return "HP" if case["tag"] == "PS" else "PS"


def scenario_case(rng):
    """a small phasing scenario, fully serialised (so replay does not need the PRNG)"""
    samples = ("S1",) if rng.random() < 0.6 else ("S1", "S2")
    sc = sim.Scenario(rng, n_contigs=rng.choice([1, 1, 2]), contig_len=(500, 1000), n_variants=(3, 9),
                      kinds=("snv", "snv", "snv", "ins", "del"), samples=samples, depth=(4, 7), read_len=(120, 350))
    recs = []
    for r in sc.vcf_records():
        fmt = ["GT"] + (["DP"] if rng.random() < 0.5 else [])
        calls = []
        for c in r["calls"]:
            g = c["GT"]
            if rng.random() < 0.3:
                g = "/".join(reversed(g.split("/")))           # unsorted, unphased
            calls.append([g] + ([str(rng.randrange(5, 60))] if len(fmt) > 1 else []))
        recs.append({"fixed": [r["chrom"], str(r["pos"] + 1), ".", r["ref"], ",".join(r["alts"]), ".", "PASS", "."],
                     "format": fmt, "calls": calls})
    vcf = {"contigs": {n: len(s) for n, s in sc.contigs.items()}, "samples": list(samples), "phasing_header": False,
           "records": recs}
    if rng.random() < 0.7:
        # the unphased original says nothing (or anything) about phasing in its header: none / some / all of the definitions
        sub = G.gen_subset(rng)
        vcf["phase_header"] = sorted(sub)
        vcf["header_lines"] = G.gen_header(rng, vcf, subset=sub, shuffle=False)
    reads = [{k: r[k] for k in ("name", "chrom", "start", "cigar", "seq", "rg", "mapq")} for r in sc.reads]
    return {"kind": "history", "fasta": sc.contigs, "reads": reads, "read_groups": sc.read_groups(), "vcf": vcf,
            "tag": rng.choice(["PS", "PS", "HP"])}


def run(ctx):
    rng = ctx.rng
    wd = ctx.workdir()
    quiet = pysam.set_verbosity(0)       # htslib's warnings about undeclared keys (used on purpose) when this process copies a file
    try:
        _run(ctx, rng, wd)
    finally:
        pysam.set_verbosity(quiet)
        shutil.rmtree(wd, ignore_errors=True)


def _run(ctx, rng, wd):
    # ---- collect cases: replay / corpus first, then generated
    cases = []
    if ctx.replay:
        cases = [json.load(open(ctx.replay))["case"]]
    else:
        cases = [c for _, c in ctx.corpus()]
        n_files = (50 if ctx.quick else 600) * ctx.scale
        n_hist = (6 if ctx.quick else 40) * ctx.scale
        for i in range(n_files):
            c = G.gen_case(rng, scale=1 if ctx.quick else rng.choice([1, 2, 4]), exotic=(i % 2 == 1))
            c["kind"] = "file"
            cases.append(c)
        for i in range(n_hist):
            cases.append(scenario_case(rng))
        for i in range((4 if ctx.quick else 12) * ctx.scale):
            cases.append(poly_case(rng))
        for i in range((20 if ctx.quick else 250) * ctx.scale):
            c = G.gen_case(rng, scale=1 if ctx.quick else rng.choice([1, 2]), exotic=True)
            c["input"] = "path"
            cases.append({"kind": "edit", "vcf": c, "edited": G.edit_case(rng, c)})

    pool = concurrent.futures.ThreadPoolExecutor(WORKERS)

    def unphase(path):
        rc, out, err, _ = sim.whatshap(["unphase", path], ctx.overlay)
        return rc, out, err

    # ---- stage 1: prepare inputs (histories: run `whatshap phase`), all CLI work in a small thread pool
    def prepare(idx_case):
        idx, case = idx_case
        d = os.path.join(wd, f"c{idx}")
        os.makedirs(d, exist_ok=True)
        res = {"dir": d}
        if case.get("kind", "file") == "edit":
            res["inputs"] = []
            for label, c in (("original", case["vcf"]), ("edited", case["edited"])):
                text = G.vcf_text(c)
                p = os.path.join(d, label + ".vcf")
                open(p, "w").write(text)
                res["inputs"].append((label, p, text))
        elif case.get("kind", "file") == "file":
            text = G.vcf_text(case)
            p = os.path.join(d, "in.vcf")
            open(p, "w").write(text)
            res["inputs"] = [("file", p, text)]
            if case.get("twin_header_lines"):
                text2 = G.vcf_text(dict(case, header_lines=case["twin_header_lines"]))
                p2 = os.path.join(d, "twin.vcf")
                open(p2, "w").write(text2)
                res["inputs"].append(("twin", p2, text2))
        elif case.get("kind") == "polyhistory":
            sc = c15_poly.PolyScenario.from_case(case["scenario"])
            fa, bam, vcf = sc.write(d)
            phased = os.path.join(d, "polyphased.vcf")
            rc, out, err, _ = sim.whatshap(["polyphase", vcf, bam, "--ploidy", str(case["ploidy"]), "-o", phased, "--reference", fa],
                                           ctx.overlay, timeout=900)
            res["phase_rc"] = rc
            res["phase_err"] = err[-400:]
            res["inputs"] = [("original", vcf, open(vcf).read())]
            if rc == 0:
                res["inputs"].append(("polyphased", phased, open(phased).read()))
        else:
            fa, bam, vcf, phased = (os.path.join(d, n) for n in ("ref.fasta", "in.bam", "in.vcf", "phased.vcf"))
            sim.write_fasta(fa, case["fasta"])
            reads = [dict(r, cigar=[tuple(x) for x in r["cigar"]]) for r in case["reads"]]
            sim.write_bam(bam, case["fasta"], reads, [tuple(x) for x in case["read_groups"]])
            text = G.vcf_text(case["vcf"])
            open(vcf, "w").write(text)
            rc, out, err, _ = sim.whatshap(["phase", "--reference", fa, "-o", phased, "--tag", case["tag"], vcf, bam], ctx.overlay)
            res["phase_rc"] = rc
            res["phase_err"] = err[-400:]
            res["inputs"] = [("original", vcf, text)]
            if rc == 0:
                res["inputs"].append(("phased", phased, open(phased).read()))
                # a longer history: phase -> unphase -> phase again (-> unphase below)
                rcu, outu, erru = unphase(phased)
                if rcu == 0:
                    back, rephased = os.path.join(d, "back.vcf"), os.path.join(d, "rephased.vcf")
                    open(back, "w").write(outu)
                    rc2, _, err2, _ = sim.whatshap(["phase", "--reference", fa, "-o", rephased, "--tag", rng_tag(case), back, bam], ctx.overlay)
                    if rc2 == 0:
                        res["inputs"].append(("rephased", rephased, open(rephased).read()))
                    else:
                        res["rephase_err"] = err2[-300:]
        # unphase every input, then unphase the output again
        res["runs"] = []
        for label, p, text in res["inputs"]:
            rc, out, err = unphase(p)
            run = {"label": label, "in_text": text, "rc": rc, "out": out, "err": err}
            if rc == 0:
                p2 = p + ".unphased.vcf"
                open(p2, "w").write(out)
                rc2, out2, err2 = unphase(p2)
                run.update(rc2=rc2, out2=out2, err2=err2)
                if idx % 4 == 0:
                    rc3, out3, err3 = unphase_stdin(ctx.overlay, text)
                    run.update(rc3=rc3, out3=out3, err3=err3)
                try:
                    run["copy"] = pysam_copy(p)
                except Exception as e:                   # htslib itself cannot write the file back
                    run["copy_err"] = f"{type(e).__name__}: {e}"[:160]
                if idx % 3 == 1:                         # the same file as BCF
                    try:
                        b = to_bcf(p)
                    except Exception as e:
                        run["bcf_err"] = f"{type(e).__name__}: {e}"[:160]
                    else:
                        rc5, out5, err5 = unphase(b)
                        run.update(rc5=rc5, out5=out5, err5=err5)
                if case.get("input") == "gz":           # the same file bgzipped
                    pysam.tabix_compress(p, p + ".gz", force=True)
                    rc4, out4, err4 = unphase(p + ".gz")
                    run.update(rc4=rc4, out4=out4, err4=err4)
            res["runs"].append(run)
        shutil.rmtree(d, ignore_errors=True)
        return res

    results = list(pool.map(prepare, enumerate(cases)))
    pool.shutdown()

    # ---- stage 2: model answers for every unphase input
    reqs, where = [], []
    for ci, res in enumerate(results):
        for ri, run in enumerate(res["runs"]):
            _, _, recs = G.parse_vcf_text(run["in_text"])
            run["recs"] = recs
            _, samples, _ = G.parse_vcf_text(run["in_text"])
            reqs.append(({"op": "c13.unphase", "records": G.model_records(recs)},
                         {"op": "c13.header", "header": hlines(run["in_text"])},
                         {"op": "c13.of_c04", "records": c04_records(samples, recs)}))
            where.append((ci, ri))
            lines = data_lines(run["in_text"]) + (data_lines(run["copy"]) if "copy" in run else [])
            reqs[-1] = reqs[-1] + ({"op": "c13.line", "lines": lines},)
    # one file per round trip: requests carry whole files, 200 of them would overfill the pipe buffers
    answers = [[ctx.model.ask_many([r])[0] for r in rs] for rs in reqs]
    for (ci, ri), (ans, hans, bans, lans) in zip(where, answers):
        results[ci]["runs"][ri]["model_line"] = lans
        results[ci]["runs"][ri]["model"] = ans
        results[ci]["runs"][ri]["model_header"] = hans
        results[ci]["runs"][ri]["model_bridge"] = bans

    # ---- stage 3: judge
    for case, res in zip(cases, results):
        kind = case.get("kind", "file")
        ctx.evaluated(max(1, len(res["runs"])))      # one evaluation per file run through `whatshap unphase`
        ctx.dist("kind", kind)
        n0 = len(ctx.fails)
        if kind == "history":
            if res["phase_rc"] != 0:
                ctx.observe("whatshap phase failed on a generated scenario: " + res["phase_err"][-120:])
        for run in res["runs"]:
            recs = run["recs"]
            label = run["label"]
            tag = f"[{kind}/{label}] "
            nontrivial = bool(recs) and has_phase_info(recs)
            if nontrivial:
                ctx.nontrivial(run["in_text"])
            ctx.dist("records", min(len(recs), 40) // 5 * 5)
            ctx.dist("samples", len(recs[0]["calls"]) if recs else 0)
            ctx.dist("header_vs_records", header_vs_records(run["in_text"], recs))
            for r in recs:
                fmt = r["format"] or []
                if "GT" not in fmt and r["calls"]:
                    ctx.dist("call_shape", "no-GT")
                    continue
                for c in r["calls"]:
                    a, p = G.parse_gt(c[fmt.index("GT")])
                    shape = f"ploidy{len(a)}" + ("-missing" if all(x is None for x in a) else "-partial" if None in a else "") + ("-phased" if p else "")
                    ctx.dist("call_shape", shape)
            model = run["model"]
            if "error" in model:
                ctx.disagree("c13.unphase", case, "input not accepted by the driver", model)
                continue
            cur = model["cur"]
            if run["rc"] != 0:
                ec = err_class(run["err"])
                predicted = cur.get("err")
                if predicted == ec:
                    key = f"F2-unphase-raises-{ec}"
                else:
                    key = f"unphase-raises-{ec}-unexplained"
                    ctx.disagree("c13.unphase.cur", case, {"raised": ec}, cur)
                ctx.fail(tag + f"`whatshap unphase` fails with {ec} on a well-formed VCF (model of HEAD's loop predicts "
                               f"{predicted}): {run['err'].strip().splitlines()[-1][:160]}", case, key=key)
                ctx.dist("outcome", "raises-" + ec)
                continue
            ctx.dist("outcome", "ok")
            # oracle
            for what, key in oracle(run["in_text"], run["out"]):
                ctx.fail(tag + what, case, key=key)
            header_observations(ctx, run["in_text"], run["out"])
            mh = run["model_header"]
            h_in, h_out = hlines(run["in_text"]), hlines(run["out"])
            ctx.dist("phasing_lines", sum(1 for h in h_in if h["key"] == "phasing"))
            # header, independent of the model: no definition of a phase tag is left, every other line of the input survives
            for h in h_out:
                if h["key"] == "FORMAT" and h["id"] in G.PHASE_TAGS:
                    ctx.fail(tag + f"the output header still defines FORMAT {h['id']}", case, key="header-phase-format-left")
            for h in h_in:
                if h["key"] != "phasing" and not (h["key"] == "FORMAT" and h["id"] in G.PHASE_TAGS) and hkey(h) not in map(hkey, h_out):
                    ctx.fail(tag + f"header line {h['key']} {h['id'] or h['text']} of the input is missing in the output", case,
                             key="header-line-lost")
            # header, correspondence: the lines in order (`unphaseHeader`)
            if "cur" not in mh:
                ctx.disagree("c13.header", case, "input header not accepted by the driver", mh)
            elif kind != "polyhistory" and [hkey(h) for h in h_out] not in ([hkey(h) for h in mh["cur"]], [hkey(h) for h in mh["fix"]]):
                # admissible: the code as it is (first `phasing` line removed) or after fixes/F61.patch (all of them)
                ctx.disagree("c13.header", case, [hkey(h) for h in h_out], [hkey(h) for h in mh["cur"]])
            if run.get("rc2") != 0:
                ctx.fail(tag + "second application of unphase fails: " + err_class(run.get("err2", "")), case, key="second-unphase-raises")
            elif data_lines(run["out2"]) != data_lines(run["out"]):
                ctx.fail(tag + "unphase is not idempotent: second application changes data lines", case, key="not-idempotent")
            elif run["out2"] != run["out"]:
                lost = [hkey(h) for h in hlines(run["out"]) if hkey(h) not in [hkey(x) for x in hlines(run["out2"])]]
                only_phasing = bool(lost) and all(k == "phasing" for k, _, _ in lost)
                ctx.fail(tag + "unphase is not idempotent: the second application changes the header (lines removed: "
                         + "; ".join(f"##{k}={t or i}" for k, i, t in lost) + ")", case,
                         key="F61-second-phasing-line" if only_phasing else "not-idempotent-header")
            if kind != "polyhistory" and run.get("rc2") == 0 and "cur2" in mh and [hkey(h) for h in hlines(run["out2"])] not in (
                    [hkey(h) for h in mh["cur2"]], [hkey(h) for h in mh["fix"]]):
                ctx.disagree("c13.header(twice)", case, [hkey(h) for h in hlines(run["out2"])], [hkey(h) for h in mh["cur2"]])
            # ---- the TEXT level: `unphaseLineText` on every data line (round 10)
            ml = run["model_line"]
            d_in, d_out = data_lines(run["in_text"]), data_lines(run["out"])
            if "out" not in ml:
                ctx.disagree("c13.line", case, "lines not accepted by the driver", ml)
            elif len(d_in) == len(d_out):
                n = len(d_in)
                d_copy = data_lines(run["copy"]) if "copy" in run else None
                if d_copy is not None and len(d_copy) != n:
                    ctx.observe("a plain pysam copy has another number of data lines than the input")
                    d_copy = None
                ctx.dist("text_lines", "with-copy" if d_copy is not None else "no-copy")
                mrecs_in = G.model_records(recs)
                for i in range(n):
                    ci_, co_ = d_in[i].split("\t"), d_out[i].split("\t")
                    cm = ml["out"][i].split("\t")
                    if cm[8:] != co_[8:]:
                        ctx.disagree("c13.line", case, {"line": i, "input": d_in[i], "cli": "\t".join(co_[8:])}, {"model": "\t".join(cm[8:])})
                    if cm[:8] != ci_[:8]:
                        ctx.disagree("c13.line(fixed)", case, {"line": i, "input": ci_[:8]}, {"model": cm[:8]})
                    if ml["rec"][i] != mrecs_in[i]:
                        ctx.disagree("c13.line(parse)", case, {"line": i, "reader": mrecs_in[i]}, {"model": ml["rec"][i]})
                    if ml["rec_out"][i] != model["spec"][i]:
                        ctx.disagree("c13.line(parse-out)", case, {"line": i, "unphase(record)": model["spec"][i]}, {"parse(unphase(text))": ml["rec_out"][i]})
                    if len(cm) > 8 and any(len(x.split(":")) != len(cm[8].split(":")) for x in cm[9:]):
                        ctx.disagree("c13.line(padded)", case, {"line": i}, {"model": ml["out"][i]})
                    if ml["out"][i] != d_out[i]:
                        ctx.dist("text_line", "fixed-columns-re-rendered-by-htslib" if cm[8:] == co_[8:] else "differs")
                        if cm[8:] == co_[8:] and "norm" not in _SEEN:
                            _SEEN.add("norm")
                            ctx.observe("htslib normalisation of the fixed columns (not whatshap; a plain pysam copy does the same): "
                                        + repr(ci_[:8]) + " -> " + repr(co_[:8]))
                    else:
                        ctx.dist("text_line", "byte-identical")
                    if d_copy is not None:
                        cc = d_copy[i].split("\t")
                        if cc[:8] != co_[:8]:
                            ctx.fail(tag + f"data line {i}: the first eight columns differ from a plain pysam copy of the input: "
                                     f"{cc[:8]} -> {co_[:8]}", case, key="fixed-changed-vs-copy")
                        if ml["out"][n + i] != d_out[i]:
                            ctx.disagree("c13.line(copy)", case, {"line": i, "copy": d_copy[i], "cli": d_out[i]}, {"model": ml["out"][n + i]})
            if "copy_err" in run:
                ctx.observe("pysam cannot copy a generated file: " + run["copy_err"][:100])
            # BCF input
            if "bcf_err" in run:
                ctx.observe("pysam cannot write a generated file as BCF: " + run["bcf_err"][:100])
            if "rc5" in run:
                ctx.dist("bcf", "ok" if run["rc5"] == 0 else "fails")
                if run["rc5"] != 0:
                    ctx.fail(tag + "`whatshap unphase` fails with " + err_class(run["err5"]) + " on the BCF form of a file it accepts as VCF",
                             case, key="bcf-unphase-raises")
                elif data_lines(run["out5"]) != data_lines(run["out"]):
                    a5, a0 = data_lines(run["out5"]), data_lines(run["out"])
                    first = next((i for i, (x, y) in enumerate(zip(a5, a0)) if x != y), None)
                    ctx.fail(tag + f"the BCF form of the file unphases to other data lines than the VCF (line {first}: "
                             f"{(a5[first] if first is not None else len(a5))!r} vs {(a0[first] if first is not None else len(a0))!r})",
                             case, key="bcf-differs")
                else:
                    for what, key in oracle(run["in_text"], run["out5"]):
                        ctx.fail(tag + "[bcf] " + what, case, key=key)
                    hb = [l for l in run["out5"].split("\n") if l.startswith("##")]
                    hv = [l for l in run["out"].split("\n") if l.startswith("##")]
                    if sorted(hb) != sorted(hv):
                        ctx.dist("bcf_header", "differs-from-vcf-run")
                    if any(l.startswith("##phasing=") or any(l.startswith(f"##FORMAT=<ID={t},") for t in G.PHASE_TAGS) for l in hb):
                        ctx.fail(tag + "[bcf] the output header still has a phasing line or a phase-tag definition", case,
                                 key="header-phase-format-left")
            # standard input instead of a path
            if "rc3" in run:
                ctx.dist("stdin", "ok" if run["rc3"] == 0 else "fails")
                if run["rc3"] != 0:
                    ctx.fail(tag + "`whatshap unphase -` (standard input) fails with " + err_class(run["err3"]) + " on a file it accepts by path",
                             case, key="stdin-unphase-raises")
                elif run["out3"] != run["out"]:
                    ctx.fail(tag + "`whatshap unphase -` (standard input) writes something else than `whatshap unphase FILE`", case,
                             key="stdin-differs")
            if "rc4" in run:
                ctx.dist("gz", "ok" if run["rc4"] == 0 else "fails")
                if run["rc4"] != 0 or run["out4"] != run["out"]:
                    ctx.fail(tag + "the bgzipped file gives " + ("an error" if run["rc4"] else "a different output") + " than the plain file",
                             case, key="gz-differs")
            # header, independent of the model and order-sensitive: the lines unphase has no business with are the same list
            keep = lambda t: [l for l in t.split("\n") if l.startswith("##") and not l.startswith("##phasing=")
                              and not any(l.startswith(f"##FORMAT=<ID={x},") for x in G.PHASE_TAGS)]
            k_in, k_out = keep(run["in_text"]), keep(run["out"])
            # (polyphase scenarios are written by sim.write_vcf, whose header htslib re-orders on reading: records only)
            if kind != "polyhistory" and k_in != k_out and sorted(k_in) == sorted(k_out):
                ctx.fail(tag + "the header lines that are kept come out in a different order", case, key="header-order-changed")
            # the bridge from the C04 record model: same records, same result
            mb = run["model_bridge"]
            if "plain" not in mb:
                ctx.disagree("c13.of_c04", case, "input not accepted by the driver", mb)
            else:
                if mb["plain"] != G.model_records(recs):
                    first = next((i for i, (x, y) in enumerate(zip(mb["plain"], G.model_records(recs))) if x != y), None)
                    ctx.disagree("c13.of_c04(plain)", case, {"record": first, "parsed": G.model_records(recs)[first] if first is not None else len(recs)},
                                 {"bridge": mb["plain"][first] if first is not None else len(mb["plain"])})
                if mb["unphased"] != model["spec"]:
                    ctx.disagree("c13.of_c04(unphased)", case, "unphase of the parsed records", "differs from unphase of the bridged records")
            # correspondence with the specification function of the theorems
            _, _, out_recs = G.parse_vcf_text(run["out"])
            impl = G.model_records(out_recs)
            if impl != model["spec"]:
                first = next((i for i, (x, y) in enumerate(zip(impl, model["spec"])) if x != y), None)
                ctx.disagree("c13.unphase", case, {"first_differing_record": first, "impl": impl[first] if first is not None else len(impl)},
                             {"model": model["spec"][first] if first is not None else len(model["spec"])})
            if "ok" not in model["fix"] or model["fix"]["ok"] != model["spec"]:
                ctx.disagree("c13.unphase.fix", case, "unphaseFix differs from unphase", model["fix"])
            ctx.validated()
        if kind == "file" and len(res["runs"]) == 2 and all(r["rc"] == 0 for r in res["runs"]):
            a, b = (data_lines(r["out"]) for r in res["runs"])
            ctx.dist("header_twins", "compared")
            if a != b:
                first = next((i for i, (x, y) in enumerate(zip(a, b)) if x != y), None)
                ctx.fail(f"[file/twin] the same records unphase differently under a header with {case['phase_header'] or 'no phase lines'} "
                         f"and under one with {case['twin_phase_header'] or 'no phase lines'}: data line {first}: "
                         f"{(a[first] if first is not None else len(a))!r} vs {(b[first] if first is not None else len(b))!r}",
                         case, key="unphase-depends-on-header")
        if kind == "edit" and len(res["runs"]) == 2:
            ra, rb = res["runs"]
            chk = ctx.model.ask_many([{"op": "c13.isedit", "a": G.model_records(ra["recs"]), "b": G.model_records(rb["recs"])}])[0]
            if chk != {"edit": True, "same": True}:
                ctx.disagree("c13.isedit", case, "the generated edit is not a phase-only edit for the model", chk)
            elif ra["rc"] == 0 and rb["rc"] == 0:
                pa, pb = (G.parse_vcf_text(r["out"])[2] for r in (ra, rb))
                n_perm = sum(1 for x, y in zip(ra["recs"], rb["recs"]) for cx, cy in zip(x["calls"], y["calls"])
                             if x["format"] and y["format"] and x["format"][:1] == ["GT"]
                             and cx[0].replace("|", "/") != cy[0].replace("|", "/"))
                ctx.dist("edit_permuted_genotypes", min(n_perm, 12) // 3 * 3)
                if pa != pb:
                    first = next((i for i, (x, y) in enumerate(zip(pa, pb)) if x != y), None)
                    ctx.fail(f"[edit] unphase of a phase-only edited file differs from unphase of the original at record {first}: "
                             f"{pa[first] if first is not None else len(pa)} vs {pb[first] if first is not None else len(pb)}",
                             case, key="unphase-edit-neq-unphase")
                keep = lambda t: [l for l in t.split("\n") if l.startswith("##") and not l.startswith("##phasing=")]
                if keep(ra["out"]) != keep(rb["out"]):
                    ctx.fail("[edit] the unphased headers of original and edited file differ beyond ##phasing lines", case,
                             key="unphase-edit-header-differs")
        if kind == "polyhistory":
            if res["phase_rc"] != 0:
                ctx.observe("whatshap polyphase failed on a generated scenario: " + res["phase_err"][-120:])
            elif len(res["runs"]) == 2 and all(r["rc"] == 0 for r in res["runs"]):
                a, b = (data_lines(r["out"]) for r in res["runs"])
                n_ph = sum(l.count("|") for l in data_lines(res["runs"][1]["in_text"]))
                ctx.dist("polyhistory_phase_separators", min(n_ph, 30) // 6 * 6)
                ctx.dist("polyhistory_ploidy", case["ploidy"])
                if a != b:
                    first = next((i for i, (x, y) in enumerate(zip(a, b)) if x != y), None)
                    ctx.fail(f"[polyhistory] unphase(polyphase(v)) differs from unphase(v) at data line {first}: "
                             f"{(a[first] if first is not None else len(a))!r} vs {(b[first] if first is not None else len(b))!r}",
                             case, key="unphase-polyphase-neq-unphase")
        if kind == "history" and res.get("rephase_err"):
            ctx.observe("second whatshap phase of a history failed: " + res["rephase_err"][-100:])
        if kind == "history" and len(res["runs"]) == 3 and all(r["rc"] == 0 for r in res["runs"]):
            a, c3 = data_lines(res["runs"][0]["out"]), data_lines(res["runs"][2]["out"])
            ctx.dist("history_length", "phase-unphase-phase-unphase")
            if a != c3:
                first = next((i for i, (x, y) in enumerate(zip(a, c3)) if x != y), None)
                ctx.fail(f"[history] unphase(phase(unphase(phase(v)))) differs from unphase(v) at data line {first}: "
                         f"{(a[first] if first is not None else len(a))!r} vs {(c3[first] if first is not None else len(c3))!r}",
                         case, key="unphase-history-neq-unphase")
        if kind == "history" and len(res["runs"]) >= 2 and all(r["rc"] == 0 for r in res["runs"][:2]):
            a, b = (data_lines(r["out"]) for r in res["runs"][:2])
            phased_text = res["runs"][1]["in_text"]
            ctx.dist("history_phased_calls", min(sum(l.count("|") for l in data_lines(phased_text)), 20) // 4 * 4)
            if a != b:
                first = next((i for i, (x, y) in enumerate(zip(a, b)) if x != y), None)
                ctx.fail(f"[history] unphase(phase(v)) differs from unphase(v) at data line {first}: "
                         f"{(a[first] if first is not None else len(a))!r} vs {(b[first] if first is not None else len(b))!r}",
                         case, key="unphase-phase-neq-unphase")
        if len(ctx.samples) < 3 and kind == "file" and res["runs"] and res["runs"][0]["rc"] == 0 and len(res["runs"][0]["recs"]) <= 4:
            ctx.sample({"input_data_lines": data_lines(res["runs"][0]["in_text"]), "output_data_lines": data_lines(res["runs"][0]["out"])})
        for key in sorted({k for _, _, k in ctx.fails[n0:]}):
            ctx.dist("finding", f"{kind}:{key}")          # cases per kind of violation

"""C13 — unphase accepts every VCF, removes all phase information and nothing else.

Per generated VCF (plain text, arbitrary call shapes) the REAL CLI `whatshap unphase` is run (twice: on the
file and on its own output) and
  * oracle (independent of the Lean model, on the raw text of input and output): exit status 0; same number
    of data lines; the eight fixed columns identical; FORMAT = input FORMAT minus HP/PQ/PS in the same order;
    per call no `|`, same multiset of allele tokens, every other field the same string; second application
    gives identical data lines;
  * correspondence: the output, parsed field by field, equals `WhVerif.C13.unphase` (the function the theorems
    are about) applied to the parsed input; when the CLI raises, the faithful model of HEAD's loop
    (`unphaseCur`) must predict exactly that exception class (this is how F2 is recognised as F2).
Header (`unphase_header`): the `##` lines of the output equal the Lean model of the header function (`c13.header`: HEAD's
"remove the first `##phasing` line" and the repaired "remove every one"); independent text oracle: no HP/PQ/PS FORMAT
definition left, every other input line still there in the same order, and the second application reproduces the first
output byte for byte (header included).  Input forms: path, stdin (`-`), bgzipped file — same output.
History cases: a simulated scenario is phased with the real `whatshap phase`; unphase(phased) must give the same
data lines as unphase(original), and a second unphase must change nothing.
"""
import collections, concurrent.futures, json, os, re, shutil, subprocess

import pysam

from harness.gen import sim
from harness.gen import c13_vcf as G

RULE = ("case = one generated VCF (1-3 contigs, 0-4 samples, up to 14*scale records; ploidy 1-5 per call, '.', "
        "partially missing, phased/unphased/mixed separators, records without GT, FORMAT fields DP GQ AD FT PS PQ HP in "
        "random order, dropped trailing fields, multi-ALT/indel/symbolic ALT; header with 0-3 ##phasing lines anywhere, "
        "##PHASING, INFO fields named PS/HP, definitions of unused phase tags left out; given as path, on stdin or bgzipped) "
        "run through `whatshap unphase` twice, or one phase->unphase->unphase history on a simulated scenario, or a file and a "
        "random phase-only edit of it (alleles of complete genotypes permuted, separators, HP/PQ/PS and ##phasing added / "
        "changed / deleted; every ploidy) both unphased; non-trivial iff the file given to unphase has >= 1 data "
        "line and >= 1 phased genotype or HP/PQ/PS value; distinct = distinct input text")
MANIFEST = dict(
    text="Lean 4 theorems about a model of run_unphase's record loop written with Python primitives that raise where "
         "CPython/pysam raise (HEAD's loop and the loop after fixes/F2.patch): the repaired loop is total and equals the "
         "specification function, which leaves no phase information, preserves allele multisets and every other field, is "
         "idempotent and is invariant under phase-only edits (an executable checker decides that relation and the check "
         "applies it to its own edits); the pre-F2 loop raises exactly on the characterised call shapes; unphase_header "
         "removes the three FORMAT definitions and (HEAD: the first, repaired: every) ##phasing line and nothing else, keeps "
         "every definition the output records need, and the whole file function is idempotent (HEAD: iff <= 1 ##phasing line). "
         "Tied to the working tree by running the real CLI on generated VCFs and comparing field by field with the model, "
         "plus a text-level oracle of the property on every (input, output) pair and phase/unphase/unphase histories",
    design_ref="DESIGN.md §5 C13",
    note="trusted: Lean kernel, axioms ⊆ {propext, Classical.choice, Quot.sound}; hand-written model; htslib/pysam parsing "
         "and serialisation are outside the model (the harness reads input and output as plain text); well-formed = GT first "
         "in FORMAT, FORMAT column present when the header has samples; htslib drops verbatim repeats of generic header "
         "lines while parsing (mirrored when the header is handed to the model)",
    technique="Lean 4 model with exception-raising primitives + totality/idempotence/permutation proofs + CLI differential run",
)
ASSUMPTIONS = [
    "well-formed VCF: GT, if present, is the first FORMAT key (VCF spec); data lines of a file with samples have a FORMAT "
    "column (pysam refuses to write records without one); values are written in htslib's canonical spelling so that "
    "'unchanged' can be judged on text",
    "the phase->unphase clause is checked on files phased by `whatshap phase` from unphased input (re-phasing already phased "
    "input is C09's subject, defect F4)",
]
WORKERS = 6


def err_class(stderr):
    m = None
    for line in stderr.strip().splitlines()[::-1]:
        m = re.match(r"^(?:\w+\.)*(\w+(?:Error|Exception))\b", line.strip())
        if m:
            return m.group(1)
    return "unknown"


def data_lines(text):
    return [l for l in text.split("\n") if l and not l.startswith("#")]


def has_phase_info(recs):
    for r in recs:
        fmt = r["format"] or []
        if any(k in G.PHASE_TAGS for k in fmt):
            return True
        if "GT" in fmt:
            i = fmt.index("GT")
            if any("|" in c[i] for c in r["calls"]):
                return True
    return False


def oracle(in_text, out_text):
    """the property predicates on (input, output) text; returns list of (what, key)"""
    fails = []
    _, s_in, r_in = G.parse_vcf_text(in_text)
    _, s_out, r_out = G.parse_vcf_text(out_text)
    if s_in != s_out:
        fails.append((f"sample columns changed: {s_in} -> {s_out}", "samples-changed"))
    if len(r_in) != len(r_out):
        fails.append((f"number of records changed: {len(r_in)} -> {len(r_out)}", "records-changed"))
        return fails
    for n, (a, b) in enumerate(zip(r_in, r_out)):
        where = f"record {n} ({a['fixed'][0]}:{a['fixed'][1]})"
        if a["fixed"] != b["fixed"]:
            fails.append((f"{where}: fixed columns changed {a['fixed']} -> {b['fixed']}", "fixed-changed"))
        fa, fb = a["format"] or [], b["format"] or []
        left = [k for k in fb if k in G.PHASE_TAGS]
        if left:
            fails.append((f"{where}: phase tag(s) {left} left in FORMAT", "phase-tag-left"))
        if [k for k in fa if k not in G.PHASE_TAGS] != [k for k in fb if k not in G.PHASE_TAGS]:
            fails.append((f"{where}: FORMAT keys changed {fa} -> {fb}", "format-changed"))
            continue
        if len(a["calls"]) != len(b["calls"]):
            fails.append((f"{where}: number of calls changed", "calls-changed"))
            continue
        for s, (ca, cb) in enumerate(zip(a["calls"], b["calls"])):
            da, db = dict(zip(fa, ca)), dict(zip(fb, cb))
            for k in fb:
                if k in G.PHASE_TAGS:
                    continue
                if k == "GT":
                    if "|" in db[k]:
                        fails.append((f"{where} sample {s}: phased genotype {db[k]} in the output", "phased-gt-left"))
                    ta = collections.Counter(da[k].replace("|", "/").split("/"))
                    tb = collections.Counter(db[k].replace("|", "/").split("/"))
                    if ta != tb:
                        fails.append((f"{where} sample {s}: allele multiset changed {da[k]} -> {db[k]}", "alleles-changed"))
                elif da[k] != db[k]:
                    fails.append((f"{where} sample {s}: field {k} changed {da[k]} -> {db[k]}", "field-changed"))
    return fails


def header_oracle(in_text, out_text):
    """independent of the Lean model: the three FORMAT definitions are gone, every other line (but `##phasing`) is kept in order"""
    fails = []
    h_in = [l for l in in_text.split("\n") if l.startswith("##")]
    h_out = [l for l in out_text.split("\n") if l.startswith("##")]
    is_def = lambda l: any(l.startswith(f"##FORMAT=<ID={t},") for t in G.PHASE_TAGS)
    removable = lambda l: l.startswith("##phasing=") or is_def(l)
    for l in h_out:
        if is_def(l):
            fails.append(("the output header still defines a phase tag: " + l[:40], "header-phase-definition-left"))
    kept_in = [l for l in h_in if not removable(l)]
    kept_out = [l for l in h_out if not removable(l)]
    if kept_in != kept_out:
        lost = [l for l in kept_in if l not in kept_out]
        new = [l for l in kept_out if l not in kept_in]
        fails.append((f"header lines other than ##phasing / HP,PQ,PS definitions changed: lost {lost[:3]}, new {new[:3]}"
                      + ("" if lost or new else " (order)"), "header-other-lines-changed"))
    return fails


F76 = "F76-unphase-not-idempotent-second-phasing-header-line"


def run_unphase(overlay, path, text, mode):
    """`whatshap unphase` on a path, on stdin ('-') or on a bgzipped copy; (rc, stdout, stderr)"""
    if mode == "gz":
        gz = path + ".gz"
        pysam.tabix_compress(path, gz, force=True)
        path = gz
    if mode != "stdin":
        rc, out, err, _ = sim.whatshap(["unphase", path], overlay)
        return rc, out, err
    if not os.path.exists(os.path.join(overlay, "whatshap", "__init__.py")):
        raise RuntimeError("overlay %s disappeared" % overlay)
    env = dict(os.environ)
    env["PYTHONPATH"] = overlay
    env.pop("WHATSHAP_VERIF_TRACE", None)
    r = subprocess.run([sim.PY, "-m", "whatshap", "unphase", "-"], env=env, input=text, capture_output=True, text=True, timeout=600)
    return r.returncode, r.stdout, r.stderr


def scenario_case(rng):
    """a small phasing scenario, fully serialised (so replay does not need the PRNG)"""
    samples = ("S1",) if rng.random() < 0.6 else ("S1", "S2")
    sc = sim.Scenario(rng, n_contigs=rng.choice([1, 1, 2]), contig_len=(500, 1000), n_variants=(3, 9),
                      kinds=("snv", "snv", "snv", "ins", "del"), samples=samples, depth=(4, 7), read_len=(120, 350))
    recs = []
    for r in sc.vcf_records():
        fmt = ["GT"] + (["DP"] if rng.random() < 0.5 else [])
        calls = []
        for c in r["calls"]:
            g = c["GT"]
            if rng.random() < 0.3:
                g = "/".join(reversed(g.split("/")))           # unsorted, unphased
            calls.append([g] + ([str(rng.randrange(5, 60))] if len(fmt) > 1 else []))
        recs.append({"fixed": [r["chrom"], str(r["pos"] + 1), ".", r["ref"], ",".join(r["alts"]), ".", "PASS", "."],
                     "format": fmt, "calls": calls})
    vcf = {"contigs": {n: len(s) for n, s in sc.contigs.items()}, "samples": list(samples), "phasing_header": False,
           "records": recs}
    reads = [{k: r[k] for k in ("name", "chrom", "start", "cigar", "seq", "rg", "mapq")} for r in sc.reads]
    return {"kind": "history", "fasta": sc.contigs, "reads": reads, "read_groups": sc.read_groups(), "vcf": vcf,
            "tag": rng.choice(["PS", "PS", "HP"])}


def run(ctx):
    rng = ctx.rng
    wd = ctx.workdir()
    try:
        _run(ctx, rng, wd)
    finally:
        shutil.rmtree(wd, ignore_errors=True)


def _run(ctx, rng, wd):
    # ---- collect cases: replay / corpus first, then generated
    cases = []
    if ctx.replay:
        cases = [json.load(open(ctx.replay))["case"]]
    else:
        cases = [c for _, c in ctx.corpus()]
        n_files = (50 if ctx.quick else 600) * ctx.scale
        n_hist = (6 if ctx.quick else 40) * ctx.scale
        for i in range(n_files):
            c = G.gen_case(rng, scale=1 if ctx.quick else rng.choice([1, 2, 4]), exotic=(i % 2 == 1))
            c["kind"] = "file"
            cases.append(c)
        for i in range(n_hist):
            cases.append(scenario_case(rng))
        for i in range((20 if ctx.quick else 250) * ctx.scale):
            c = G.gen_case(rng, scale=1 if ctx.quick else rng.choice([1, 2]), exotic=True)
            c["input"] = "path"
            cases.append({"kind": "edit", "vcf": c, "edited": G.edit_case(rng, c)})

    pool = concurrent.futures.ThreadPoolExecutor(WORKERS)

    def unphase(path, text="", mode="path"):
        return run_unphase(ctx.overlay, path, text, mode)

    # ---- stage 1: prepare inputs (histories: run `whatshap phase`), all CLI work in a small thread pool
    def prepare(idx_case):
        idx, case = idx_case
        d = os.path.join(wd, f"c{idx}")
        os.makedirs(d, exist_ok=True)
        res = {"dir": d}
        if case.get("kind", "file") == "edit":
            res["inputs"] = []
            for label, c in (("original", case["vcf"]), ("edited", case["edited"])):
                text = G.vcf_text(c)
                p = os.path.join(d, label + ".vcf")
                open(p, "w").write(text)
                res["inputs"].append((label, p, text))
        elif case.get("kind", "file") == "file":
            text = G.vcf_text(case)
            p = os.path.join(d, "in.vcf")
            open(p, "w").write(text)
            res["inputs"] = [("file", p, text)]
            res["mode"] = case.get("input", "path")
        else:
            fa, bam, vcf, phased = (os.path.join(d, n) for n in ("ref.fasta", "in.bam", "in.vcf", "phased.vcf"))
            sim.write_fasta(fa, case["fasta"])
            reads = [dict(r, cigar=[tuple(x) for x in r["cigar"]]) for r in case["reads"]]
            sim.write_bam(bam, case["fasta"], reads, [tuple(x) for x in case["read_groups"]])
            text = G.vcf_text(case["vcf"])
            open(vcf, "w").write(text)
            rc, out, err, _ = sim.whatshap(["phase", "--reference", fa, "-o", phased, "--tag", case["tag"], vcf, bam], ctx.overlay)
            res["phase_rc"] = rc
            res["phase_err"] = err[-400:]
            res["inputs"] = [("original", vcf, text)]
            if rc == 0:
                res["inputs"].append(("phased", phased, open(phased).read()))
        # unphase every input, then unphase the output again
        res["runs"] = []
        for label, p, text in res["inputs"]:
            mode = res.get("mode", "path")
            rc, out, err = unphase(p, text, mode)
            run = {"label": label, "in_text": text, "rc": rc, "out": out, "err": err, "mode": mode}
            if mode != "path":
                run["plain"] = unphase(p)          # the same file given as a path must give the same output
            if rc == 0:
                p2 = p + ".unphased.vcf"
                open(p2, "w").write(out)
                rc2, out2, err2 = unphase(p2)
                run.update(rc2=rc2, out2=out2, err2=err2)
            res["runs"].append(run)
        shutil.rmtree(d, ignore_errors=True)
        return res

    results = list(pool.map(prepare, enumerate(cases)))
    pool.shutdown()

    # ---- stage 2: model answers for every unphase input
    reqs, where = [], []
    for ci, res in enumerate(results):
        for ri, run in enumerate(res["runs"]):
            _, _, recs = G.parse_vcf_text(run["in_text"])
            run["recs"] = recs
            reqs.append({"op": "c13.unphase", "records": G.model_records(recs)})
            where.append((ci, ri))
    # one request per round trip: requests carry whole files, 200 of them would overfill the pipe buffers
    answers = [ctx.model.ask_many([r])[0] for r in reqs]
    for (ci, ri), ans in zip(where, answers):
        results[ci]["runs"][ri]["model"] = ans
    for res in results:
        for run in res["runs"]:
            run["hmodel"] = ctx.model.ask_many([{"op": "c13.header", "lines": G.header_model_lines(run["in_text"])}])[0]
            if run["rc"] == 0:
                run["hmodel2"] = ctx.model.ask_many([{"op": "c13.header", "lines": G.header_model_lines(run["out"])}])[0]

    # ---- stage 3: judge
    for case, res in zip(cases, results):
        kind = case.get("kind", "file")
        ctx.evaluated()
        ctx.dist("kind", kind)
        if kind == "history":
            if res["phase_rc"] != 0:
                ctx.observe("whatshap phase failed on a generated scenario: " + res["phase_err"][-120:])
        for run in res["runs"]:
            recs = run["recs"]
            label = run["label"]
            tag = f"[{kind}/{label}] "
            nontrivial = bool(recs) and has_phase_info(recs)
            if nontrivial:
                ctx.nontrivial(run["in_text"])
            ctx.dist("records", min(len(recs), 40) // 5 * 5)
            ctx.dist("samples", len(recs[0]["calls"]) if recs else 0)
            for r in recs:
                fmt = r["format"] or []
                if "GT" not in fmt and r["calls"]:
                    ctx.dist("call_shape", "no-GT")
                    continue
                for c in r["calls"]:
                    a, p = G.parse_gt(c[fmt.index("GT")])
                    shape = f"ploidy{len(a)}" + ("-missing" if all(x is None for x in a) else "-partial" if None in a else "") + ("-phased" if p else "")
                    ctx.dist("call_shape", shape)
            model = run["model"]
            if "error" in model:
                ctx.disagree("c13.unphase", case, "input not accepted by the driver", model)
                continue
            cur = model["cur"]
            if run["rc"] != 0:
                ec = err_class(run["err"])
                predicted = cur.get("err")
                if predicted == ec:
                    key = f"F2-unphase-raises-{ec}"
                else:
                    key = f"unphase-raises-{ec}-unexplained"
                    ctx.disagree("c13.unphase.cur", case, {"raised": ec}, cur)
                ctx.fail(tag + f"`whatshap unphase` fails with {ec} on a well-formed VCF (model of HEAD's loop predicts "
                               f"{predicted}): {run['err'].strip().splitlines()[-1][:160]}", case, key=key)
                ctx.dist("outcome", "raises-" + ec)
                continue
            ctx.dist("outcome", "ok")
            # oracle
            for what, key in oracle(run["in_text"], run["out"]):
                ctx.fail(tag + what, case, key=key)
            for what, key in header_oracle(run["in_text"], run["out"]):
                ctx.fail(tag + what, case, key=key)
            # header: correspondence with the model of unphase_header (HEAD: first ##phasing line only; repaired: all)
            h_out = [l for l in run["out"].split("\n") if l.startswith("##")]
            hm = run["hmodel"]
            n_phasing = len({l for l in run["in_text"].split("\n") if l.startswith("##phasing=")})
            ctx.dist("phasing_header_lines", min(n_phasing, 3))
            ctx.dist("input_mode", run.get("mode", "path"))
            if "error" in hm:
                ctx.disagree("c13.header", case, "header not accepted by the driver", hm)
            elif h_out != hm["cur"] and h_out != hm["fix"]:
                first = next((i for i, (x, y) in enumerate(zip(h_out, hm["cur"])) if x != y), min(len(h_out), len(hm["cur"])))
                ctx.disagree("c13.header", case, {"first_differing_line": first, "impl": h_out[first:first + 2]},
                             {"model_HEAD": hm["cur"][first:first + 2], "model_repaired": hm["fix"][first:first + 2]})
            if run.get("plain") is not None and (run["plain"][0] != 0 or run["plain"][1] != run["out"]):
                ctx.fail(tag + f"input given as {run['mode']} and as a path give different outputs", case, key="input-form-matters")
            if run.get("rc2") != 0:
                ctx.fail(tag + "second application of unphase fails: " + err_class(run.get("err2", "")), case, key="second-unphase-raises")
            elif data_lines(run["out2"]) != data_lines(run["out"]):
                ctx.fail(tag + "unphase is not idempotent: second application changes data lines", case, key="not-idempotent")
            elif run["out2"] != run["out"]:
                h2 = [l for l in run["out2"].split("\n") if l.startswith("##")]
                gone = [l for l in h_out if l not in h2]
                explained = "error" not in hm and h_out == hm["cur"] and hm["cur"] != hm["fix"] and h2 == run.get("hmodel2", {}).get("cur")
                ctx.fail(tag + f"unphase is not idempotent: the second application changes the header (removes {gone[:2]}); "
                               f"unphase_header removes only the first of {n_phasing} ##phasing lines", case,
                         key=F76 if explained and all(l.startswith("##phasing=") for l in gone) else "not-idempotent-header")
            # correspondence with the specification function of the theorems
            _, _, out_recs = G.parse_vcf_text(run["out"])
            impl = G.model_records(out_recs)
            if impl != model["spec"]:
                first = next((i for i, (x, y) in enumerate(zip(impl, model["spec"])) if x != y), None)
                ctx.disagree("c13.unphase", case, {"first_differing_record": first, "impl": impl[first] if first is not None else len(impl)},
                             {"model": model["spec"][first] if first is not None else len(model["spec"])})
            if "ok" not in model["fix"] or model["fix"]["ok"] != model["spec"]:
                ctx.disagree("c13.unphase.fix", case, "unphaseFix differs from unphase", model["fix"])
            ctx.validated()
        if kind == "edit" and len(res["runs"]) == 2:
            ra, rb = res["runs"]
            chk = ctx.model.ask_many([{"op": "c13.isedit", "a": G.model_records(ra["recs"]), "b": G.model_records(rb["recs"])}])[0]
            if chk != {"edit": True, "same": True}:
                ctx.disagree("c13.isedit", case, "the generated edit is not a phase-only edit for the model", chk)
            elif ra["rc"] == 0 and rb["rc"] == 0:
                pa, pb = (G.parse_vcf_text(r["out"])[2] for r in (ra, rb))
                n_perm = sum(1 for x, y in zip(ra["recs"], rb["recs"]) for cx, cy in zip(x["calls"], y["calls"])
                             if x["format"] and y["format"] and x["format"][:1] == ["GT"]
                             and cx[0].replace("|", "/") != cy[0].replace("|", "/"))
                ctx.dist("edit_permuted_genotypes", min(n_perm, 12) // 3 * 3)
                if pa != pb:
                    first = next((i for i, (x, y) in enumerate(zip(pa, pb)) if x != y), None)
                    ctx.fail(f"[edit] unphase of a phase-only edited file differs from unphase of the original at record {first}: "
                             f"{pa[first] if first is not None else len(pa)} vs {pb[first] if first is not None else len(pb)}",
                             case, key="unphase-edit-neq-unphase")
                keep = lambda t: [l for l in t.split("\n") if l.startswith("##") and not l.startswith("##phasing=")]
                if keep(ra["out"]) != keep(rb["out"]):
                    ctx.fail("[edit] the unphased headers of original and edited file differ beyond ##phasing lines", case,
                             key="unphase-edit-header-differs")
        if kind == "history" and len(res["runs"]) == 2 and all(r["rc"] == 0 for r in res["runs"]):
            a, b = (data_lines(r["out"]) for r in res["runs"])
            phased_text = res["runs"][1]["in_text"]
            ctx.dist("history_phased_calls", min(sum(l.count("|") for l in data_lines(phased_text)), 20) // 4 * 4)
            if a != b:
                first = next((i for i, (x, y) in enumerate(zip(a, b)) if x != y), None)
                ctx.fail(f"[history] unphase(phase(v)) differs from unphase(v) at data line {first}: "
                         f"{(a[first] if first is not None else len(a))!r} vs {(b[first] if first is not None else len(b))!r}",
                         case, key="unphase-phase-neq-unphase")
        if len(ctx.samples) < 3 and kind == "file" and res["runs"] and res["runs"][0]["rc"] == 0 and len(res["runs"][0]["recs"]) <= 4:
            ctx.sample({"input_data_lines": data_lines(res["runs"][0]["in_text"]), "output_data_lines": data_lines(res["runs"][0]["out"])})

"""C18 — priority queue and component finder match their abstract models on all histories.

Correspondence: the real `PriorityQueue` / `ComponentFinder` against the Lean model (exact heap
model: every output must be equal).  Property oracle (independent of the Lean model): an abstract
map item -> score; a pop must return an entry of maximal score with the score last assigned; lookups
report exactly what is queued; `find` = minimum of the connected component (BFS).
"""
import itertools

RULE = ("well-formed operation histories (push of a non-queued item, pop, change_score of a queued item, "
        "get_score_by_item, len, is_empty) over small item/score domains, scalar and tuple scores, equal scores; "
        "merge/find histories over small value sets. A history is non-trivial if it contains a pop of a queue "
        "with >= 2 entries or a change_score (PQ), or a merge joining two multi-element classes or a find after "
        "a merge (UF); distinct = distinct op sequence")
MANIFEST = dict(
    text="Lean 4 theorems about an exact model of the binary heap (with its position map) and of the union-find: "
         "every history refines the abstract priority map / partition; the model is tied to the working tree by "
         "running identical histories through the real PriorityQueue/ComponentFinder and the compiled model "
         "(equal outputs) and by an independent abstract-spec oracle on the implementation's outputs",
    design_ref="DESIGN.md §5 C18",
    note="trusted: Lean kernel, axioms ⊆ {propext, Classical.choice, Quot.sound}; the hand-written model "
         "(correspondence is differential testing: quick 9 000 random histories, thorough +exhaustive small spaces); "
         "misuse histories (duplicate push, change_score of absent item) are outside the contract",
    technique="Lean 4 refinement proof (heap ⊑ priority map, union-find = min of class) + differential correspondence",
)
ASSUMPTIONS = ["misuse (duplicate push, change_score of an absent item) is outside the class contract and is never "
               "sent to the implementation (it corrupts memory there); the model answers `misuse`"]


def norm_score(s):
    return tuple(s) if isinstance(s, (tuple, list)) else (s,)


def py_score(s):
    """what the implementation expects/returns: 1-vectors are plain ints"""
    return s[0] if len(s) == 1 else tuple(s)


def gen_history(rng, n_ops, n_items, score_gen):
    queued = set()
    ops = []
    for _ in range(n_ops):
        r = rng.random()
        free = [i for i in range(n_items) if i not in queued]
        if r < 0.35 and free:
            it = rng.choice(free); queued.add(it)
            ops.append(["push", score_gen(), it])
        elif r < 0.55:
            ops.append(["pop"])  # the spec decides what leaves; resolved during execution
        elif r < 0.8 and queued:
            ops.append(["change", rng.choice(sorted(queued)), score_gen()])
        elif r < 0.9:
            ops.append(["get", rng.randrange(n_items)])
        elif r < 0.95:
            ops.append(["len"])
        else:
            ops.append(["empty"])
        # we cannot know which item a pop removes without running; track conservatively by re-running below
        if ops[-1][0] == "pop":
            # resolve by simulating the abstract spec with deterministic choice is not possible (ties);
            # so the generator is run *online* in run_history instead.  Here we just mark.
            pass
    return ops


def run_pq_online(PriorityQueue, rng, n_ops, n_items, score_gen):
    """generate a well-formed history online against the real queue; returns (ops, impl_outputs, failures)"""
    q = PriorityQueue()
    spec = {}
    ops, outs, fails = [], [], []
    nontrivial = False
    for _ in range(n_ops):
        r = rng.random()
        free = [i for i in range(n_items) if i not in spec]
        if r < 0.35 and free:
            it = rng.choice(free); s = score_gen()
            ops.append(["push", list(s), it])
        elif r < 0.55:
            ops.append(["pop"])
        elif r < 0.8 and spec:
            ops.append(["change", rng.choice(sorted(spec)), list(score_gen())])
        elif r < 0.9:
            ops.append(["get", rng.randrange(n_items)])
        elif r < 0.95:
            ops.append(["len"])
        else:
            ops.append(["empty"])
        try:
            o, f, nt = apply_impl(q, spec, ops[-1])
        except Exception as e:     # no operation of a valid history may raise anything but the IndexError of an empty pop
            fails.append(f"{ops[-1][0]} raised {type(e).__name__}: {str(e)[:100]} on a valid history")
            outs.append("exception:" + type(e).__name__)
            return ops, outs, fails, True
        outs.append(o); fails += f; nontrivial |= nt
    return ops, outs, fails, nontrivial


def apply_impl(q, spec, op):
    """apply one op to the real queue and the abstract spec; returns (canonical output, failures, nontrivial)"""
    fails, nt = [], False
    kind = op[0]
    if kind == "push":
        q.push(py_score(op[1]), op[2]); spec[op[2]] = tuple(op[1]); out = "ok"
    elif kind == "pop":
        if not spec:
            try:
                q.pop(); out = "no-exception"; fails.append("pop on empty queue did not raise IndexError")
            except IndexError:
                out = "IndexError"
        else:
            nt = len(spec) >= 2
            s, it = q.pop()
            s = norm_score(s)
            out = [list(s), it]
            if it not in spec:
                fails.append(f"pop returned item {it} that is not queued")
            else:
                if spec[it] != s:
                    fails.append(f"pop returned score {s} for item {it}, last assigned {spec[it]}")
                best = max(spec.values())
                if s != best:
                    fails.append(f"pop returned score {s} but a queued entry has {best} (not non-increasing)")
                del spec[it]
    elif kind == "change":
        nt = True
        q.change_score(op[1], py_score(op[2])); spec[op[1]] = tuple(op[2]); out = "ok"
    elif kind == "get":
        s = q.get_score_by_item(op[1])
        out = None if s is None else list(norm_score(s))
        exp = spec.get(op[1])
        if (None if exp is None else list(exp)) != out:
            fails.append(f"get_score_by_item({op[1]}) = {out}, queued score is {exp}")
    elif kind == "len":
        out = len(q)
        if out != len(spec):
            fails.append(f"len = {out}, {len(spec)} items queued")
    elif kind == "empty":
        out = q.is_empty()
        if out != (len(spec) == 0):
            fails.append(f"is_empty = {out}, {len(spec)} items queued")
    return out, fails, nt


def replay_pq(PriorityQueue, ops):
    q, spec, outs, fails = PriorityQueue(), {}, [], []
    for op in ops:
        if op[0] == "push" and op[2] in spec:
            outs.append("misuse"); continue
        if op[0] == "change" and op[1] not in spec:
            outs.append("misuse"); continue
        o, f, _ = apply_impl(q, spec, op)
        outs.append(o); fails += f
    return outs, fails


def uf_oracle(values, merges, x):
    adj = {v: set() for v in values}
    for a, b in merges:
        adj[a].add(b); adj[b].add(a)
    seen, st = {x}, [x]
    while st:
        v = st.pop()
        for w in adj[v]:
            if w not in seen:
                seen.add(w); st.append(w)
    return min(seen)


def run_uf(ComponentFinder, values, ops):
    cf = ComponentFinder(values)
    outs, fails, merges = [], [], []
    nt = False
    for op in ops:
        if op[0] == "merge":
            cf.merge(op[1], op[2]); merges.append((op[1], op[2])); outs.append("ok")
        else:
            r = cf.find(op[1]); outs.append(r)
            nt |= bool(merges)
            exp = uf_oracle(values, merges, op[1])
            if r != exp:
                fails.append(f"find({op[1]}) = {r}, minimum of its component is {exp}")
    # final: same representative iff connected, for all pairs
    reps = {v: cf.find(v) for v in values}
    for v in values:
        if reps[v] != uf_oracle(values, merges, v):
            fails.append(f"final find({v}) = {reps[v]} != component minimum")
    return outs, fails, nt


def gen_deep_chain(rng, n):
    """a merge history that builds a parent chain of length ~n in the component finder: the current minimum of the growing
    component is merged with the next smaller singleton (either argument order), so the old root becomes the child of a new
    root and no path is ever compressed; a few finds on roots / shallow nodes in between (they compress nothing or little),
    then finds on the deepest elements.  Variants: one chain, two chains joined at the end, a chain built from a shuffled
    suffix first.  Iterative find/merge must handle any depth (seed C18-i: a recursive _find_node dies beyond ~1000)."""
    values = rng.sample(range(0, 3 * n), n)
    desc = sorted(values, reverse=True)
    ops = []
    kind = rng.choice(["one", "two", "one"])
    chains = [desc] if kind == "one" else [desc[0::2], desc[1::2]]
    for ch in chains:
        for i in range(1, len(ch)):
            a, b = ch[i], ch[i - 1]          # ch[i-1] is the current root (minimum so far) of the chain's component
            ops.append(["merge", a, b] if rng.random() < 0.5 else ["merge", b, a])
            if rng.random() < 0.002:
                ops.append(["find", b])      # the old root: depth 1, compresses nothing
    if kind == "two":
        ops.append(["merge", chains[0][-1], chains[1][-1]])
    deepest = [ch[0] for ch in chains]
    for v in deepest + rng.sample(values, 3):
        ops.append(["find", v])
    return values, ops


def run_uf_deep(ComponentFinder, values, ops):
    """like run_uf, with a linear-time oracle (component minimum by an independent size-balanced merge of labelled sets)
    and every exception inside the (valid) history reported as a failure"""
    label = {v: v for v in values}            # value -> component id
    members = {v: [v] for v in values}        # component id -> members
    cmin = {v: v for v in values}
    outs, fails = [], []
    try:
        cf = ComponentFinder(values)
        for op in ops:
            if op[0] == "merge":
                cf.merge(op[1], op[2]); outs.append("ok")
                a, b = label[op[1]], label[op[2]]
                if a != b:
                    if len(members[a]) < len(members[b]):
                        a, b = b, a
                    for m in members[b]:
                        label[m] = a
                    members[a].extend(members.pop(b)); cmin[a] = min(cmin[a], cmin.pop(b))
            else:
                r = cf.find(op[1]); outs.append(r)
                exp = cmin[label[op[1]]]
                if r != exp:
                    fails.append(f"find({op[1]}) = {r}, minimum of its component is {exp} (history of {len(ops)} operations)")
    except Exception as e:  # noqa: a valid history must never raise
        fails.append(f"{type(e).__name__} after {len(outs)} of {len(ops)} operations of a valid history ({len(values)} values): {str(e)[:80]}")
        outs.append("raised " + type(e).__name__)
    return outs, fails, True


def run(ctx):
    from whatshap.priorityqueue import PriorityQueue
    from whatshap.graph import ComponentFinder
    rng = ctx.rng
    batch, meta = [], []

    def flush():
        if not batch:
            return
        answers = ctx.model.ask_many(batch)
        for req, (ops, impl), ans in zip(batch, meta, answers):
            if ans != impl:
                ctx.disagree(req["op"], req, impl, ans)
        batch.clear(); meta.clear()

    def add_pq(ops, outs, fails, nt):
        ctx.evaluated()
        if nt:
            ctx.nontrivial("pq" + repr(ops))
        ctx.dist("pq_len", len(ops))
        for f in fails:
            ctx.fail("priority queue: " + f, {"kind": "pq", "ops": ops}, key="pq-spec")
        batch.append({"op": "c18.pq", "ops": ops}); meta.append((ops, outs))
        ctx.sample({"pq_ops": ops, "impl": outs})
        if len(batch) >= 500:
            flush()

    def add_uf(values, ops, outs, fails, nt, kind="uf"):
        ctx.evaluated()
        if nt:
            ctx.nontrivial("uf" + repr((values, ops)) if kind == "uf" else "uf-deep%d/%d" % (len(values), hash(tuple(values)) % 10**9))
        ctx.dist("uf_len", len(ops) if kind == "uf" else "deep>=%d" % (len(ops) // 1000 * 1000))
        for f in fails:
            ctx.fail("component finder: " + f, {"kind": kind, "values": values, "ops": ops},
                     key="uf-spec" if kind == "uf" else "uf-deep-chain")
        batch.append({"op": "c18.uf", "values": values, "ops": ops}); meta.append((ops, outs))
        if len(ctx.samples) < 4 and len(ops) > 3:
            ctx.sample({"uf_values": values, "uf_ops": ops, "impl": outs})
        if len(batch) >= 500:
            flush()

    # ---- replay / corpus first
    cases = [c for _, c in ctx.corpus()]
    if ctx.replay:
        import json
        cases = [json.load(open(ctx.replay))["case"]]
    for c in cases:
        if c.get("kind") == "uf-deep":
            outs, fails, nt = run_uf_deep(ComponentFinder, c["values"], c["ops"])
            add_uf(c["values"], c["ops"], outs, fails, nt, kind="uf-deep")
            continue
        if c.get("kind") == "uf" or "values" in c:
            outs, fails, nt = run_uf(ComponentFinder, c["values"], c["ops"])
            add_uf(c["values"], c["ops"], outs, fails, nt)
        else:
            outs, fails = replay_pq(PriorityQueue, c["ops"])
            add_pq(c["ops"], outs, fails, True)
    if ctx.replay:
        flush(); return

    # ---- random histories
    n_pq = (6000 if ctx.quick else 60000) * ctx.scale
    gens = [
        lambda: [rng.randrange(3)],
        lambda: [rng.randrange(-5, 6)],
        lambda: [rng.randrange(3), rng.randrange(3)],
        lambda: [rng.randrange(2), rng.randrange(2), rng.randrange(3)],
        lambda: [rng.randrange(2)] * rng.randrange(1, 4),          # prefix-related vectors of different length
        lambda: [rng.randrange(-10**6, 10**6)],
    ]
    for i in range(n_pq):
        g = gens[i % len(gens)]
        ops, outs, fails, nt = run_pq_online(PriorityQueue, rng, rng.randrange(1, 40), rng.choice([2, 3, 5, 9, 17]), g)
        add_pq(ops, outs, fails, nt)
    n_uf = (3000 if ctx.quick else 30000) * ctx.scale
    for i in range(n_uf):
        nv = rng.choice([2, 3, 4, 5, 8, 12])
        values = rng.sample(range(0, 3 * nv), nv)
        ops = []
        for _ in range(rng.randrange(1, 2 * nv + 2)):
            if rng.random() < 0.6:
                a, b = rng.sample(values, 2); ops.append(["merge", a, b])
            else:
                ops.append(["find", rng.choice(values)])
        outs, fails, nt = run_uf(ComponentFinder, values, ops)
        add_uf(values, ops, outs, fails, nt)
    flush()

    # ---- deep parent chains (depth ~ number of values: 300 ... 3000; seed C18-i)
    for n in ([300, 1100, 1600, 2400] if ctx.quick else [300, 700, 1100, 1300, 1600, 2000, 2400, 3000, 3000, 3000]) * ctx.scale:
        values, ops = gen_deep_chain(rng, n + rng.randrange(0, 50))
        outs, fails, nt = run_uf_deep(ComponentFinder, values, ops)
        add_uf(values, ops, outs, fails, nt, kind="uf-deep")
        flush()

    # ---- exhaustive small spaces (thorough)
    if not ctx.quick:
        # all well-formed push/pop/change histories of length <= 5 over 3 items x 3 scalar scores,
        # with a get of every item, len and is_empty after every operation
        items, scores = [0, 1, 2], [0, 1, 2]
        cnt = 0

        def rec(prefix, queued_count_unknown=None):
            nonlocal cnt
            if prefix:
                full = []
                for op in prefix:
                    full.append(op); full += [["get", i] for i in items] + [["len"], ["empty"]]
                outs, fails = replay_pq(PriorityQueue, full)
                if "misuse" in outs:
                    return  # ill-formed prefix: prune
                cnt += 1
                add_pq(full, outs, fails, len(prefix) >= 3)
            if len(prefix) == 5:
                return
            for it in items:
                for s in scores:
                    rec(prefix + [["push", [s], it]])
                    rec(prefix + [["change", it, [s]]])
            rec(prefix + [["pop"]])
        rec([])
        ctx.extra["exhaustive_pq_histories_len_le_5"] = cnt
        # all merge sequences of length <= 5 over 4 values followed by find of every value
        vals = [3, 1, 4, 2]
        pairs = [(a, b) for a in vals for b in vals if a != b]
        cnt = 0
        for L in range(0, 5):
            for seq in itertools.product(pairs, repeat=L):
                ops = [["merge", a, b] for a, b in seq] + [["find", v] for v in vals]
                outs, fails, nt = run_uf(ComponentFinder, vals, ops)
                add_uf(vals, ops, outs, fails, nt); cnt += 1
        ctx.extra["exhaustive_uf_merge_seqs_len_le_4"] = cnt
        ctx.extra["exhaustive"] = True
        flush()

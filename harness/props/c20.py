"""C20 — auxiliary reports (read list, changed-genotype list, recombination list) cover the whole run and
agree with the phased VCF.

Every case is a real `whatshap phase` run (CLI, working-tree overlay, trace hook on) over a generated
multi-chromosome / multi-family input.  Oracle (Python, independent of the Lean model): the four predicates of
the property evaluated on (input VCF, output VCF, the three list files, trace).  Correspondence: the files
must equal what the Lean state machine (`c20.run`, repaired writers) produces from the traced instances and
from the change rows of the Lean record writer (`c04.write`) fed with the traced super-reads/components.

Deepened (E14): the three files are also compared *line by line, header included* with the file-level machine `c20.files`
(`runF`: header once, `started` flags, content found at the paths before the run, per-chromosome `components` dict) — as
the code is now or after `fixes/F80.patch`; the sequence of (chromosome, family, children) in the trace must equal
`c20.order` (`processingOrder`: VCF chromosome order x `setup_families` = families sorted by smallest member, children in
PED order) computed from the VCF header, `--sample` and the PED file only; `setup_pedigree`/`setup_families` are run
in-process on random pedigrees (`c20.families`).
"""
import json, os, random, shutil

from harness.gen import sim
from harness.gen import c04_records as R
from harness.gen.c20_ped import scenario_from_case

RULE = ("one `whatshap phase` CLI run over a generated pedigree scenario (1-3 chromosomes, 0-2 trios/quartet plus "
        "unrelated samples, random subset of --output-read-list/--changed-genotype-list/--recombination-list, "
        "with/without --ped (also with ignorable / reordered PED lines), --distrust-genotypes(+genotype errors), --chromosome/--sample "
        "selections incl. a selection that matches no chromosome, list paths that already exist, both tags). "
        "plus in-process cases (round 10): generated PED texts for PedReader, sample selections, inputs of find_recombination / write_recombination_list. Non-trivial: at least two (chromosome, family) instances were processed and at least one requested list has "
        "data rows; distinct = distinct (generator seed, options)")
MANIFEST = dict(
    text="Lean 4 theorems about a state-machine model of the chromosome x family loop of run_whatshap over the three "
         "list files (lists_cover_run for the repaired writers, its negation for the code as it is: F1), about the "
         "read-list rows, find_recombination and the change rows of the record writer; tied to the working tree by "
         "real CLI runs whose files are compared with the model fed with the traced instances, plus an independent "
         "oracle evaluating the four predicates on (input VCF, output VCF, list files, trace). Deepened: file-level state "
         "machine (header once, started flags, old content of the paths, per-chromosome components dict) with "
         "files_cover_run for arbitrary old content, setup_families/processing order (union-find with minimum "
         "representative) proved and compared in-process and against the trace order; files compared line by line",
    design_ref="DESIGN.md §5 C20, §6 F1",
    note="trusted: Lean kernel; the hand-written model (differential: quick ~14 CLI runs, thorough ~100); pysam/htslib "
         "parsing; the trace hook. F1 (lists re-opened with 'w' per chromosome/family) is a genuine defect of /repo: "
         "the check reports it until fixes/F1.patch is applied",
    technique="Lean 4 state-machine proof (fold invariants) + record-writer lemmas + differential correspondence on CLI runs",
)
ASSUMPTIONS = [
    "the trace hook (WHATSHAP_VERIF_TRACE) reports the reads, partition, components and transmission vector that the "
    "run really used; htslib parsing of the VCFs is shared by whatshap and the harness",
    "the position column of the changed-genotype list is 0-based (as coded); the oracle accepts it as such",
]


# ------------------------------------------------------------------------------------------------
# generation
# ------------------------------------------------------------------------------------------------

def gen_case(rng, scale=1):
    n_trios = rng.choice([0, 1, 1, 1, 2])
    params = dict(
        n_contigs=rng.choice([1, 2, 2, 3]),
        n_trios=n_trios,
        quartet=bool(n_trios and rng.random() < 0.45),
        n_singles=rng.choice([0, 1, 2]) if n_trios else rng.choice([1, 2, 3]),
        n_variants=[4, 7 + 2 * scale],
        depth=[3, 6],
        read_len=rng.choice([[120, 380], [120, 380], [50, 110]]),   # short reads: several phase sets per family
        het_prob=rng.choice([0.5, 0.7, 0.9]),
        recomb_prob=rng.choice([0.0, 0.6, 1.0]),
        kinds=rng.choice([["snv"], ["snv"], ["snv", "snv", "ins", "del"]]),
    )
    # a chromosome on which nobody has anything to phase (F22: --recombination-list used to crash there)
    params["empty_last_contig"] = bool(params["n_contigs"] > 1 and rng.random() < 0.15)
    distrust = rng.random() < 0.5
    params["gt_error_prob"] = rng.choice([0.1, 0.2]) if distrust else 0.0
    lists = rng.choice([(1, 1, 1), (1, 1, 1), (1, 0, 0), (0, 1, 0), (0, 0, 1), (1, 1, 0), (0, 1, 1), (1, 0, 1), (0, 0, 0)])
    opts = dict(
        read_list=bool(lists[0]), gt_list=bool(lists[1]), rec_list=bool(lists[2]),
        distrust=distrust, include_hom=bool(distrust and rng.random() < 0.3),
        ped=bool(n_trios and rng.random() < 0.85),
        tag=rng.choice(["PS", "PS", "HP"]),
        recombrate=rng.choice([1.26, 1000, 1000000]),
        # without genetic haplotyping the phase sets are the read-connected components only, so a family has several
        # phase sets and singletons on one chromosome (a recombination then lies in a set that is not a prefix of the
        # family's accessible positions)
        no_genetic=bool(n_trios and rng.random() < 0.4),
        chrom_sel=rng.random() < 0.25,     # resolved to names below
        sample_sel=rng.random() < 0.15,
    )
    if n_trios and rng.random() < 0.3:
        # recombination focus: a recombining child, cheap recombination, several read-connected phase sets per family
        params.update(n_variants=[9, 14 + 2 * scale], recomb_prob=1.0, het_prob=0.9, read_len=[90, 200], depth=[4, 7])
        opts.update(ped=True, rec_list=True, no_genetic=True, recombrate=rng.choice([1000, 1000000]), distrust=False,
                    include_hom=False)
        params["gt_error_prob"] = 0.0
    case = {"kind": "pipeline", "gen_seed": rng.randrange(1 << 40), "params": params, "opts": opts}
    # selections need the names: resolve them deterministically from the scenario
    sc = scenario_from_case(case)
    r2 = random.Random(case["gen_seed"] ^ 0x5eed)
    chroms = list(sc.contigs)
    opts["chromosomes"] = sorted(r2.sample(chroms, r2.randrange(1, len(chroms) + 1))) if (opts.pop("chrom_sel") and len(chroms) > 1) else None
    opts["samples"] = sorted(r2.sample(sc.samples, r2.randrange(1, len(sc.samples) + 1))) if (opts.pop("sample_sel") and len(sc.samples) > 1) else None
    # E14: a run that processes no chromosome at all (--chromosome names nothing in the VCF); PED files with lines the
    # code has to ignore (unknown parent, individual not in the VCF, comments) and in another order than the samples
    if r2.random() < 0.06:
        opts["chromosomes"] = ["chrNope"]
    if opts["ped"] and r2.random() < 0.5:
        opts["ped_extra"] = r2.choice(["ghost-child", "unknown-parent", "comment", "reversed", "ghost-child+reversed"])
    # round 10: --use-ped-samples (samples = PedReader.samples(): the unrelated samples of the VCF are not phased)
    if opts["ped"] and not opts["samples"] and r2.random() < 0.2:
        opts["use_ped"] = True
        if "ghost" in (opts.get("ped_extra") or ""):
            opts["ped_extra"] = "reversed"            # an individual outside the VCF is a CommandLineError here
    return case


def ped_text(sc, o):
    lines = [f"fam{i}\t{c}\t{f}\t{m}\t0\t1" for i, (f, m, c) in enumerate(sc.trios)]
    extra = o.get("ped_extra") or ""
    if "reversed" in extra:
        lines.reverse()
    if "ghost-child" in extra and sc.trios:
        f, m, _ = sc.trios[0]
        lines.insert(len(lines) // 2, f"fam0\tghost\t{f}\t{m}\t0\t1")          # child not in the VCF: ignored
    if "unknown-parent" in extra:
        singles = [s for s in sc.samples if s.startswith("S")]
        if singles and sc.trios:
            lines.insert(0, f"famS\t{singles[0]}\t0\t{sc.trios[0][1]}\t0\t1")  # father unknown: ignored
    if "comment" in extra:
        lines.insert(0, "# family individual father mother sex phenotype")
        lines.insert(2, "")                                                      # an empty line ("\n") is skipped
    return "".join(l + "\n" for l in lines)


def ped_lines(text):
    """[child, father|None, mother|None] per non-comment line (what PedReader yields)"""
    out = []
    for line in text.splitlines(keepends=True):
        if line.startswith("#") or line == "\n":
            continue
        f = line.split()
        out.append([f[1], None if f[2] == "0" else f[2], None if f[3] == "0" else f[3]])
    return out


def cli_args(case, fa, bam, vcf, ped, out, files):
    o = case["opts"]
    a = ["phase", "-o", out, "--reference", fa, "--tag", o["tag"]]
    if o["read_list"]:
        a += ["--output-read-list", files["read"]]
    if o["gt_list"]:
        a += ["--changed-genotype-list", files["gt"]]
    if o["rec_list"]:
        a += ["--recombination-list", files["rec"]]
    if o["distrust"]:
        a += ["--distrust-genotypes"]
    if o["include_hom"]:
        a += ["--include-homozygous"]
    if o["ped"]:
        a += ["--ped", ped, "--recombrate", o["recombrate"]]
        if o.get("no_genetic"):
            a += ["--no-genetic-haplotyping"]
        if o.get("use_ped"):
            a += ["--use-ped-samples"]
    for c in o.get("chromosomes") or []:
        a += ["--chromosome", c]
    for s in o.get("samples") or []:
        a += ["--sample", s]
    return a + [vcf, bam]


# ------------------------------------------------------------------------------------------------
# reading the list files
# ------------------------------------------------------------------------------------------------

def read_rows(path, sep="\t"):
    """(header line or None, data rows) ; None if the file does not exist"""
    if not os.path.exists(path):
        return None
    hdr, rows = None, []
    with open(path) as f:
        for line in f:
            line = line.rstrip("\n")
            if line.startswith("#"):
                hdr = line if hdr is None else hdr
                if rows:
                    rows.append(["#header-in-body"])
                continue
            rows.append(line.split(sep) if sep else line.split())
    return hdr, rows


def file_lines(path):
    """the lines of a list file, None if it does not exist; a last line without terminator is marked"""
    if not os.path.exists(path):
        return None
    text = open(path, encoding="utf-8").read()
    lines = text.split("\n")
    if lines[-1] == "":
        lines.pop()
    else:
        lines[-1] += "<no newline at end of file>"
    return lines


def py_recombination(t):
    """independent statement of what `write_recombination_list` has to list for one trace record: a change of
    the child's transmission value between neighbours i-1, i (i >= 2) of a sorted component"""
    pos = t["accessible_positions"]
    idx = {p: i for i, p in enumerate(pos)}
    blocks = {}
    for p, b in t["overall_components"]:
        blocks.setdefault(b, []).append(p)
    rows = []
    for k, (father, mother, child) in enumerate(t["trios"]):
        tv = [(v // (4 ** k)) % 4 for v in t["transmission_vector"]]
        ev = []
        for b, members in blocks.items():
            members.sort()
            for i in range(2, len(members)):
                x, y = tv[idx[members[i - 1]]], tv[idx[members[i]]]
                if x != y:
                    ev.append([child, t["chromosome"], members[i - 1] + 1, members[i] + 1, x % 2, y % 2, x // 2, y // 2,
                               int(t["recombination_costs"][idx[members[i]]])])
        rows += sorted(ev, key=lambda e: (e[2], e[3]))
    return rows


# ------------------------------------------------------------------------------------------------
# one case
# ------------------------------------------------------------------------------------------------

def run_case(ctx, case, n):
    o = case["opts"]
    d = os.path.join(ctx.workdir(), f"case{n}")
    shutil.rmtree(d, ignore_errors=True)
    sc = scenario_from_case(case)
    fa, bam, vcf, ped = sc.write(d)
    ptext = ped_text(sc, o)
    with open(ped, "w") as f:
        f.write(ptext)
    out = os.path.join(d, "out.vcf")
    files = {k: os.path.join(d, k + ".list") for k in ("read", "gt", "rec")}
    pre = {"read": None, "gt": None, "rec": None}
    if case.get("stale_lists", (case.get("gen_seed", 0) % 2 == 0)):
        # the list paths already exist from an earlier run (pipeline re-run into the same paths): the lists must
        # describe THIS run only — leftovers would be rows that are no entry of any processed chromosome/family
        for k, pth in files.items():
            if not o[{"read": "read_list", "gt": "gt_list", "rec": "rec_list"}[k]]:
                continue        # only paths handed to whatshap; the others must simply stay absent
            with open(pth, "w") as f:
                f.write("#stale header from an earlier run\nstaleSample\tchrOld\t123\tA\tC\t0/0\t0/1\tleft over\n")
            pre[k] = ["#stale header from an earlier run", "staleSample\tchrOld\t123\tA\tC\t0/0\t0/1\tleft over"]
        ctx.dist("list_paths", "pre-existing")
    rc, so, se, trace = R.run_whatshap(ctx, cli_args(case, fa, bam, vcf, ped, out, files), trace=os.path.join(d, "trace.jsonl"))
    ctx.evaluated()
    ctx.dist("n_contigs", len(sc.contigs)); ctx.dist("families", f"{case['params']['n_trios']}t+{case['params']['n_singles']}s")
    ctx.dist("lists", "+".join(k.split("_")[0] for k in ("read_list", "gt_list", "rec_list") if o[k]) or "-")
    ctx.dist("mode", ("distrust" if o["distrust"] else "trust") + ("+ped" if o["ped"] else "") + "/" + o["tag"])
    if rc != 0:
        if "Traceback" in se or rc < 0:
            ctx.fail("whatshap phase crashed: " + se.strip().splitlines()[-1][:300], case, key="crash")
        else:
            ctx.observe("clean command-line error: " + se.strip().splitlines()[-1][:80])
        shutil.rmtree(d, ignore_errors=True)
        return
    fails = []

    def fail(what, key):
        fails.append(key)
        ctx.fail(what, case, key=key)

    _, samples, rin = R.load_vcf(vcf)
    try:
        _, _, rout = R.load_vcf(out)
    except OSError:
        # --tag HP can write a NUL byte as HP value (defect F21, reported by the C04/C09 checks): the output cannot
        # be parsed, so the VCF-dependent predicates are skipped for this run
        ctx.observe("output VCF unreadable by htslib (F21: HP written as NUL); VCF-dependent predicates skipped")
        rout = None
    blocks = R.chrom_blocks(rin)
    sel = o.get("chromosomes")
    processed = [c for c, _ in blocks if not sel or c in sel]
    by_chrom = {}
    for t in trace:
        by_chrom.setdefault(t["chromosome"], []).append(t)
    ctx.validated(len(trace))
    ctx.dist("instances", len(trace))

    # ---------------- independent expectations
    # (1) genotype differences input <-> output
    diffs = []
    if rout is None:
        pass
    elif len(rin) == len(rout):
        for a, b in zip(rin, rout):
            for s, ca, cb in zip(samples, a["calls"], b["calls"]):
                ga, gb = R.gt_code(ca.get("GT")), R.gt_code(cb.get("GT"))
                if ga != gb:
                    diffs.append([s, a["chrom"], str(a["pos"]), a["ref"], (a["alts"] or ["."])[0], R.gt_repr(ga), R.gt_repr(gb)])
    else:
        fail("output VCF has a different number of records than the input", "record-count")
    # (2) reads handed to the solver
    exp_reads = []
    for t in trace:
        inv = {v: k for k, v in t["numeric_sample_ids"].items()}
        comps = dict(map(tuple, t["overall_components"]))
        for r, h in zip(t["all_reads"], t["partitioning"] or []):
            ps = [v[0] for v in r["variants"]]
            exp_reads.append({"chrom": t["chromosome"], "row": [r["name"], str(r["source_id"]), inv[r["sample_id"]], str(comps[ps[0]] + 1),
                                                               str(h), str(len(ps)), str(ps[0] + 1), str(ps[-1] + 1)]})
    # (3) recombination events
    exp_rec = [[str(x) for x in row] for t in trace for row in py_recombination(t)]
    phase_out = {s: sim.decode_phase(rout, i) for i, s in enumerate(samples)} if rout is not None else {}

    got = {"read": read_rows(files["read"]), "gt": read_rows(files["gt"]), "rec": read_rows(files["rec"], sep=None)}

    raw = {k: file_lines(files[k]) for k in files}
    # ---------------- F80: nothing processed -> the piecewise lists are never opened; an old file keeps its rows
    stale_f80 = set()
    for key, flag in (("gt", "gt_list"), ("rec", "rec_list")):
        if o[flag] and not processed and pre[key] is not None and raw[key] == pre[key]:
            stale_f80.add(key)
            fail(f"F80: the run processed no chromosome (--chromosome {sel}); the requested {key} list was not rewritten and still "
                 f"holds the {len(pre[key]) - 1} row(s) of an earlier run, none of which is an entry of this run "
                 f"(the read list was reset to its header)", "F80-stale-list-when-no-chromosome-processed")
    ctx.dist("processed_chromosomes", len(processed))

    # ---------------- lists_cover_run
    for key, want, exp in (("read", o["read_list"], [e["row"] for e in exp_reads]), ("gt", o["gt_list"], diffs), ("rec", o["rec_list"], exp_rec)):
        g = got[key]
        if key == "gt" and rout is None:
            continue
        if key in stale_f80:
            continue
        if not want:
            if g is not None:
                fail(f"{key} list written although not requested", f"unrequested-{key}")
            continue
        if g is None:
            if processed and (key == "read" or exp):
                fail(f"{key} list was requested but not written", f"missing-file-{key}")
            continue
        hdr, rows = g
        if hdr is None or ["#header-in-body"] in rows:
            fail(f"{key} list: header missing or repeated inside the body", f"header-{key}")
        rows = [r for r in rows if r != ["#header-in-body"]]
        lost = [e for e in exp if e not in rows]
        if lost:
            chroms_lost = sorted({e[1] for e in lost}) if key != "read" else sorted({x["chrom"] for x in exp_reads if x["row"] in lost})
            fail(f"lists_cover_run: {len(lost)} of {len(exp)} expected rows are missing from the {key} list "
                 f"(chromosomes {chroms_lost}; processed {processed}); first missing: {lost[0]}", f"cover-{key}")
        got[key] = (hdr, rows)

    # ---------------- readlist_rows_sound
    if o["read_list"] and got["read"]:
        for row in got["read"][1]:
            cands = [e for e in exp_reads if e["row"][0] == row[0] and e["row"][2] == (row[2] if len(row) > 2 else None)]
            if not any(e["row"] == row for e in cands):
                fail(f"readlist_rows_sound: row {row} is not a read handed to the solver with that phase set / haplotype "
                     f"(candidates {[e['row'] for e in cands][:2]})", "readrow")
                break
            e = next(e for e in cands if e["row"] == row)
            ph = phase_out.get(row[2], {}).get((e["chrom"], int(row[6]) - 1))
            if ph is not None and str(ph[0]) != row[3]:
                fail(f"readlist_rows_sound: row {row}: the output VCF puts its first variant into phase set {ph[0]}", "readrow-ps")
                break
    # ---------------- gtchange_rows_eq_diff
    if o["gt_list"] and got["gt"] and rout is not None and "gt" not in stale_f80:
        for row in got["gt"][1]:
            if row not in diffs:
                fail(f"gtchange_rows_eq_diff: listed change {row} is not a genotype difference between input and output VCF", "gtrow")
                break
    if diffs and not o["distrust"]:
        fail(f"genotypes changed without --distrust-genotypes: {diffs[0]}", "gt-changed-trusted")
    # ---------------- recomb_rows_within_set
    if o["rec_list"] and got["rec"] and "rec" not in stale_f80:
        for row in got["rec"][1]:
            ok = False
            if len(row) == 9:
                for t in by_chrom.get(row[1], []):
                    comps = dict(map(tuple, t["overall_components"]))
                    p1, p2 = int(row[2]) - 1, int(row[3]) - 1
                    if row[0] in [tr[2] for tr in t["trios"]] and p1 in comps and p2 in comps and comps[p1] == comps[p2] and p1 < p2 \
                            and not any(comps[q] == comps[p1] and p1 < q < p2 for q in comps):
                        a, b = phase_out.get(row[0], {}).get((row[1], p1)), phase_out.get(row[0], {}).get((row[1], p2))
                        ok = a is None or b is None or a[0] == b[0]
            if not ok:
                fail(f"recomb_rows_within_set: row {row} does not lie between two neighbouring variants of one phase set of the child's family", "recrow")
                break

    # ---------------- correspondence with the Lean model
    reqs, meta = [], []
    for chrom, idxs in blocks:
        ts = by_chrom.get(chrom, []) if chrom in processed else []
        cfg = {"tag": o["tag"], "onlySnvs": False, "mav": False, "repaired": True, "samples": samples,
               "targets": R.targets_from_trace(ts)}
        reqs.append({"op": "c04.write", "cfg": cfg, "records": [R.model_record(rin[i], samples) for i in idxs]})
        meta.append((chrom, ts))
    answers = ctx.model.ask_many(reqs) if reqs else []
    chroms_json = []
    for (chrom, ts), ans in zip(meta, answers):
        chroms_json.append({"selected": chrom in processed, "families": [R.inst_from_trace(t) for t in ts],
                            # the model's change rows carry no chromosome (one `write` call per chromosome):
                            # thread it through the sample field
                            "gtChanges": [dict(c, sample=chrom + "\x1f" + c["sample"]) for c in ans.get("changes", [])]})
    mopts = {"readList": o["read_list"], "gtList": o["gt_list"], "recList": o["rec_list"]}
    rep, fai = ctx.model.ask_many([{"op": "c20.run", "opts": dict(mopts, repaired=True), "chroms": chroms_json},
                                   {"op": "c20.run", "opts": dict(mopts, repaired=False), "chroms": chroms_json}])

    def model_rows(m, key):
        rows = m.get({"read": "readList", "gt": "gtList", "rec": "recList"}[key])
        if rows is None:
            return None
        if key == "gt":
            return [[c["sample"].split("\x1f")[1], c["sample"].split("\x1f")[0], str(c["pos"]), c["ref"], (c["alts"] or ["."])[0],
                     R.gt_repr(c["old"]), R.gt_repr(c["new"])] for c in rows]
        return [[str(x) for x in r] for r in rows]

    for key, flag in (("read", "read_list"), ("gt", "gt_list"), ("rec", "rec_list")):
        impl = None if not isinstance(got[key], tuple) else got[key][1]
        mr, mf = model_rows(rep, key), model_rows(fai, key)
        # rows only: whether a file without data rows exists at all is compared by `c20.files` below (as coded / F80 repaired)
        if (impl or []) == (mr or []):
            continue
        if (impl or []) == (mf or []):
            ctx.observe(f"{key} list equals the model of the code as it is (F1: file re-opened with 'w'), not the repaired model")
            if not any(k in fails for k in (f"cover-{key}",)):
                ctx.disagree(f"c20.run[{key}] (repaired writers)", case, impl, mr)
            continue
        if not fails:
            ctx.disagree(f"c20.run[{key}]", case, impl, mr)
    # ---------------- file level (E14): every line incl. the header, content found before the run, creation
    chroms_f = []
    for (chrom, ts), ans in zip(meta, answers):
        chroms_f.append({"name": chrom, "selected": chrom in processed,
                         "families": [{"inst": R.inst_from_trace(t), "members": list(t["family"])} for t in ts],
                         "gtChanges": ans.get("changes", [])})
    freq = {"op": "c20.files", "opts": mopts, "pre": pre, "chroms": chroms_f}
    used_samples = list(o.get("samples") or samples)
    if o.get("use_ped") and o["ped"]:
        sel = ctx.model.ask_many([{"op": "c20.samples", "vcf": list(samples), "cli": [], "ped": ped_lines(ptext), "usePed": True}])[0]
        used_samples = sel.get("samples", [])
        ctx.dist("use_ped_samples", f"{len(used_samples)}/{len(samples)}")
    oreq = {"op": "c20.order", "chroms": [[c, c in processed] for c, _ in blocks], "samples": used_samples,
            "ped": ped_lines(ptext) if o["ped"] else []}
    f_fix, f_cur, order = ctx.model.ask_many([dict(freq, createAtStart=True), dict(freq, createAtStart=False), oreq])
    for key in ("read", "gt", "rec"):
        if key == "gt" and rout is None:
            continue                       # F21: change rows of an unparsable output are not comparable
        if raw[key] not in (f_fix.get(key), f_cur.get(key)):
            if not fails:
                ctx.disagree(f"c20.files[{key}]", case, raw[key], {"createAtStart": f_fix.get(key), "asCoded": f_cur.get(key)})
        elif raw[key] != f_fix.get(key):
            ctx.dist("f80_shape", f"{key}:{'absent' if raw[key] is None else 'stale'}")
    seen = [[t["chromosome"], list(t["family"]), [tr[2] for tr in t["trios"]]] for t in trace]
    if seen != order:
        ctx.disagree("c20.order", case, seen, order)
    n_rows = sum(len(g[1]) for g in got.values() if isinstance(g, tuple))
    if len(trace) >= 2 and n_rows > 0:
        ctx.nontrivial((case["gen_seed"], json.dumps(o, sort_keys=True)))
    ctx.dist("rows_read", len(got["read"][1]) if isinstance(got["read"], tuple) else "-")
    ctx.dist("rows_gt", len(got["gt"][1]) if isinstance(got["gt"], tuple) else "-")
    ctx.dist("rows_rec", len(got["rec"][1]) if isinstance(got["rec"], tuple) else "-")
    ctx.sample({"case": case, "trace_instances": len(trace), "gt_diffs": len(diffs), "expected_rec_rows": len(exp_rec),
                "read_rows": len(exp_reads)})
    shutil.rmtree(d, ignore_errors=True)


def families_level(ctx):
    """`setup_pedigree` + `setup_families` (real, in-process) against `c20.families` on random pedigrees: several
    generations, half-known parents, individuals that are not samples, sample order unrelated to the PED order"""
    import logging
    from whatshap.cli.phase import setup_families
    rng = ctx.rng
    d = ctx.workdir()
    reqs, reals = [], []
    logging.disable(logging.CRITICAL)
    try:
        for n in range((150 if ctx.quick else 1500) * ctx.scale):
            k = rng.choice([2, 3, 4, 6, 9, 12])
            names = [rng.choice("ABCDEFGHKMZabz") + rng.choice(["", "1", "2", "10", "_x"]) + "." + str(i) for i in range(k)]   # distinct
            rng.shuffle(names)
            samples = [x for x in names if rng.random() < 0.85] or names[:1]
            order = list(range(k))
            ped = []
            for ci in range(k):           # parents have a smaller index than the child: no cycles, one line per individual
                if ci >= 2 and rng.random() < 0.8:
                    f, m = rng.sample(range(ci), 2)
                    x = rng.random()
                    ped.append([names[ci], None if x < 0.1 else names[f], None if 0.1 <= x < 0.2 else names[m]])
                elif rng.random() < 0.3:
                    ped.append([names[ci], None, None])
            rng.shuffle(ped)
            path = os.path.join(d, f"fam{n}.ped")
            with open(path, "w") as f:
                for c, fa, mo in ped:
                    f.write(f"fam\t{c}\t{fa or '0'}\t{mo or '0'}\t0\t1\n")
            try:
                fams, ftrios = setup_families(samples, path, 15)
            except Exception as e:                      # the model is total: any exception is a difference
                os.remove(path)
                reals.append({"families": {"raised": type(e).__name__}})
                reqs.append({"op": "c20.families", "samples": samples, "ped": ped})
                continue
            os.remove(path)
            reals.append({"families": [{"rep": r, "members": list(m), "trios": [[t.father, t.mother, t.child] for t in ftrios.get(r, [])]}
                                       for r, m in sorted(fams.items())],
                          "kept": None})
            reqs.append({"op": "c20.families", "samples": samples, "ped": ped})
            ctx.dist("ped_families", len(fams)); ctx.dist("ped_largest_family", max(len(m) for m in fams.values()))
    finally:
        logging.disable(logging.NOTSET)
    answers = []
    for i in range(0, len(reqs), 50):
        answers += ctx.model.ask_many(reqs[i:i + 50])
    for req, real, model in zip(reqs, reals, answers):
        if model.get("families") != real["families"]:
            ctx.disagree("c20.families", {"samples": req["samples"], "ped": req["ped"]}, real["families"], model.get("families"))


# ------------------------------------------------------------------------------------------------
# round 10: PedReader at text level, sample selection, find_recombination with its assertions (all in-process)
# ------------------------------------------------------------------------------------------------

def _ask_chunks(ctx, reqs, size=100):
    out = []
    for i in range(0, len(reqs), size):
        out += ctx.model.ask_many(reqs[i:i + size])
    return out


def ped_text_level(ctx):
    """the real `PedReader` on generated PED *text* (as stream and as file; valid, with duplicates, malformed) against
    `c20.ped` (`parsePed`, `pedSamples`, `keptTrios`); oracle: the statements of `ped_trios_are_complete_lines`,
    `ped_duplicate_rejected`, `ped_samples_order_is_file_order` evaluated on what the real reader returned"""
    import io, logging
    from whatshap.pedigree import PedReader, ParseError
    from whatshap.cli.phase import setup_pedigree
    from harness.gen.c20_deep import gen_ped_text, NAMES
    rng, d = ctx.rng, ctx.workdir()
    reqs, reals = [], []
    logging.disable(logging.CRITICAL)
    try:
        for n in range((400 if ctx.quick else 4000) * ctx.scale):
            via_path = rng.random() < 0.4
            text = gen_ped_text(rng, ascii_only=via_path)
            case = {"kind": "ped-text", "text": text, "viaPath": via_path}
            samples = rng.sample(NAMES, rng.randrange(1, len(NAMES) + 1))
            path = os.path.join(d, "t.ped")
            if via_path:
                with open(path, "wb") as f:
                    f.write(text.encode("ascii"))
            try:
                reader = PedReader(path) if via_path else PedReader(io.StringIO(text))
                real = {"trios": [[t.child, t.father, t.mother] for t in reader], "samples": list(reader.samples())}
                real["kept"] = [[t.father, t.mother, t.child] for t in setup_pedigree(path, samples)[0]] if via_path else None
            except ParseError as e:
                msg = str(e)
                real = {"error": "fields" if "Less than six" in msg else "duplicate", "msg": msg}
            except Exception as e:                               # anything else is not a documented outcome
                real = {"error": type(e).__name__, "msg": str(e)}
                ctx.fail(f"PedReader raised {type(e).__name__}: {e}", case, key="ped-crash")
            ctx.evaluated()
            # --- oracle: the property-level statements on the real outcome (independent of the model)
            eff = text
            if via_path:
                eff = text.replace("\r\n", "\n").replace("\r", "\n")
            raw_lines = [l for l in eff.split("\n")]
            data = [l for i, l in enumerate(raw_lines) if not l.startswith("#") and not (l == "" )]
            # (a line that is "" here was "\n" in the stream, or the empty rest after the final terminator)
            fields = [l.split() for l in data]
            short = any(len(f) < 6 for f in fields)
            inds = [f[1] for f in fields if len(f) >= 6]
            dups = sorted({x for x in inds if inds.count(x) > 1})
            if "error" not in real:
                ch = [t[0] for t in real["trios"]]
                if len(set(ch)) != len(ch):
                    ctx.fail(f"PedReader accepted a PED file that lists an individual twice: {ch}", case, key="ped-duplicate-accepted")
                if short:
                    ctx.fail("PedReader accepted a line with fewer than six fields", case, key="ped-short-line-accepted")
                exp = [[f[1], None if f[2] == "0" else f[2], None if f[3] == "0" else f[3]] for f in fields if len(f) >= 6]
                if not short and real["trios"] != exp:
                    ctx.fail(f"PedReader trios are not the data lines of the file: {real['trios']} vs {exp}", case, key="ped-trios")
                first = []
                for c, fa, mo in real["trios"]:
                    if fa is not None and mo is not None:
                        for x in (c, fa, mo):
                            if x not in first:
                                first.append(x)
                if real["samples"] != first:
                    ctx.fail(f"PedReader.samples() {real['samples']} is not the file order of the complete lines {first}", case,
                             key="ped-samples-order")
                if real.get("kept") is not None:
                    expk = [[fa, mo, c] for c, fa, mo in real["trios"] if fa is not None and mo is not None
                            and fa in samples and mo in samples and c in samples]
                    if real["kept"] != expk:
                        ctx.fail(f"setup_pedigree kept {real['kept']}, complete lines among the samples are {expk}", case, key="ped-kept")
                if len(real["trios"]) >= 2 and first:
                    ctx.nontrivial(("ped", text))
            else:
                if real["error"] == "duplicate" and not dups:
                    ctx.fail(f"PedReader rejected a PED file without duplicate individual: {real['msg']}", case, key="ped-false-duplicate")
                if real["error"] == "fields" and not short:
                    ctx.fail("PedReader rejected a PED file whose data lines all have six fields", case, key="ped-false-short")
            ctx.dist("ped_text_outcome", real.get("error", "ok"))
            reqs.append({"op": "c20.ped", "text": text, "viaPath": via_path, "samples": samples})
            reals.append((case, real))
            if via_path:
                os.remove(path)
    finally:
        logging.disable(logging.NOTSET)
    for (case, real), m in zip(reals, _ask_chunks(ctx, reqs)):
        if "error" in real:
            ok = m.get("error") == real["error"] and (real["error"] != "duplicate" or
                                                       real["msg"] == f"Individual {m.get('id')!r} occurs more than once in PED file")
            if not ok:
                ctx.disagree("c20.ped[error]", case, real, m)
        else:
            if m.get("trios") != real["trios"]:
                ctx.disagree("c20.ped[trios]", case, real["trios"], m.get("trios", m))
            elif m.get("samples") != real["samples"]:
                ctx.disagree("c20.ped[samples]", case, real["samples"], m.get("samples"))
            elif real.get("kept") is not None and m.get("kept") != real["kept"]:
                ctx.disagree("c20.ped[kept]", case, real["kept"], m.get("kept"))


def samples_level(ctx):
    """`--use-ped-samples`: the two statements of `run_whatshap` (`PedReader(ped).samples()`, then the real
    `raise_if_any_sample_not_in_vcf`) against `c20.samples` (`selectSamples`)"""
    from whatshap.pedigree import PedReader
    from whatshap.cli.phase import raise_if_any_sample_not_in_vcf
    from whatshap.cli import CommandLineError
    from harness.gen.c20_deep import gen_selection
    rng, d = ctx.rng, ctx.workdir()

    class FakeReader:
        def __init__(self, samples):
            self.samples = samples
    reqs, reals = [], []
    path = os.path.join(d, "s.ped")
    for n in range((200 if ctx.quick else 2000) * ctx.scale):
        vcf, cli, ped, use_ped = gen_selection(rng)
        case = {"kind": "selection", "vcf": vcf, "cli": cli, "ped": ped, "usePed": use_ped}
        samples = list(cli) if cli else list(vcf)              # `if not samples: samples = vcf_reader.samples`
        if ped is not None and use_ped:
            with open(path, "w") as f:
                for c, fa, mo in ped:
                    f.write(f"f\t{c}\t{fa or '0'}\t{mo or '0'}\t0\t0\n")
            samples = PedReader(path).samples()
            os.remove(path)
        try:
            raise_if_any_sample_not_in_vcf(FakeReader(vcf), samples)
            real = {"samples": list(samples)}
            if any(s not in vcf for s in samples):
                ctx.fail(f"samples {samples} selected although the VCF only has {vcf}", case, key="selection-not-in-vcf")
        except CommandLineError as e:
            missing = [s for s in samples if s not in vcf]
            real = {"error": missing[0] if missing and repr(missing[0]) in str(e) else str(e)}
            if not missing:
                ctx.fail("sample selection rejected although every sample is in the VCF", case, key="selection-false-error")
        ctx.evaluated()
        reqs.append({"op": "c20.samples", "vcf": vcf, "cli": cli, "ped": ped, "usePed": use_ped})
        reals.append((case, real))
    for (case, real), m in zip(reals, _ask_chunks(ctx, reqs)):
        if m != real:
            ctx.disagree("c20.samples", case, real, m)


def findrec_level(ctx):
    """the real `find_recombination` / `write_recombination_list` in-process on generated transmission vectors,
    components, positions and costs (incl. no position, one position, violated preconditions) against `c20.findrec`
    (`findRecombinationA`) and `c20.recrows` (`recombRowsA`); oracle: `find_recombination_assert_free` (no
    AssertionError under the caller's invariants), `recomb_rows_complete`/`recomb_rows_sorted` on the real events"""
    import logging
    from whatshap.pedigree import find_recombination, Trio
    from whatshap.cli.phase import write_recombination_list
    from harness.gen.c20_deep import gen_findrec
    rng, d = ctx.rng, ctx.workdir()
    reqs, reals = [], []
    logging.disable(logging.CRITICAL)
    try:
        for n in range((400 if ctx.quick else 4000) * ctx.scale):
            tv, comps, positions, recomb, ok = gen_findrec(rng)
            case = {"kind": "findrec", "tv": tv, "comps": comps, "positions": positions, "recomb": recomb}
            try:
                ev = find_recombination(list(tv), {p: b for p, b in comps}, list(positions), list(recomb))
                real = {"events": [[e.position1, e.position2, e.transmitted_hap_father1, e.transmitted_hap_father2,
                                    e.transmitted_hap_mother1, e.transmitted_hap_mother2, e.recombination_cost] for e in ev]}
            except AssertionError:
                real = {"assert": True}
            except Exception as e:
                real = {"raised": type(e).__name__}
            ctx.evaluated()
            if ok:
                if "events" not in real:
                    ctx.fail(f"find_recombination fails ({real}) although the transmission vector and the costs have one entry "
                             f"per accessible position and every component key is a position", case, key="findrec-assert")
                else:
                    idx = {p: i for i, p in enumerate(positions)}
                    blocks = {}
                    for p, b in comps:
                        blocks.setdefault(b, []).append(p)
                    exp = []
                    for b, mem in blocks.items():
                        mem.sort()
                        for i in range(2, len(mem)):
                            x, y = tv[idx[mem[i - 1]]], tv[idx[mem[i]]]
                            if x != y:
                                exp.append([mem[i - 1], mem[i], x % 2, y % 2, x // 2, y // 2, recomb[idx[mem[i]]]])
                    got = real["events"]
                    for e in exp:
                        if got.count(e) != 1:
                            ctx.fail(f"change of the transmission value between neighbours {e[0]},{e[1]} of a phase set is listed "
                                     f"{got.count(e)} times", case, key="findrec-complete")
                            break
                    else:
                        if len(got) != len(exp):
                            ctx.fail(f"find_recombination lists {len(got)} events, {len(exp)} changes exist", case, key="findrec-sound")
                        elif any(a[0] >= b[0] for a, b in zip(got, got[1:])):
                            ctx.fail("events of find_recombination are not sorted by position", case, key="findrec-sorted")
                    if exp:
                        ctx.nontrivial(("findrec", json.dumps(case, sort_keys=True)))
            ctx.dist("findrec_outcome", "events" if "events" in real else ("assert" if "assert" in real else "raised"))
            reqs.append({"op": "c20.findrec", "f22": True, "tv": tv, "comps": comps, "positions": positions, "recomb": recomb})
            reals.append(("c20.findrec", case, real))
        # the writer with its per-child dict: 0-3 trios, sometimes a child named twice (what `_sanity_check` excludes)
        path = os.path.join(d, "rec.txt")
        for n in range((150 if ctx.quick else 1500) * ctx.scale):
            tv, comps, positions, recomb, ok = gen_findrec(rng)
            k = rng.choice([0, 1, 1, 2, 3])
            children = [f"c{i}" for i in range(k)]
            if k >= 2 and rng.random() < 0.12:
                children[-1] = children[0]; ok = ok and not positions
            tv = [rng.randrange(4 ** max(k, 1)) if rng.random() < 0.4 else (tv[i - 1] if i else 0) for i, v in enumerate(tv)]
            inst = {"chrom": "chrQ", "reads": [], "partition": [], "comps": comps, "positions": positions, "recomb": recomb,
                    "tv": tv, "children": children}
            case = {"kind": "recrows", "inst": inst}
            try:
                nrec = write_recombination_list(path, "chrQ", list(positions), {p: b for p, b in comps}, list(recomb), list(tv),
                                                [Trio(child=c, father="f", mother="m") for c in children])
                rows = [l.split(" ") for l in open(path).read().splitlines()[1:]]
                real = {"rows": [[r[0], r[1]] + [int(x) for x in r[2:]] for r in rows]}
                if nrec != len(rows):
                    ctx.fail(f"write_recombination_list returned {nrec} for {len(rows)} rows", case, key="recrows-count")
            except AssertionError:
                real = {"assert": True}
            except Exception as e:
                real = {"raised": type(e).__name__}
            ctx.evaluated()
            if ok and k and "rows" not in real:
                ctx.fail(f"write_recombination_list fails ({real}) under the caller's invariants", case, key="findrec-assert")
            reqs.append({"op": "c20.recrows", "inst": inst})
            reals.append(("c20.recrows", case, real))
        if os.path.exists(path):
            os.remove(path)
    finally:
        logging.disable(logging.NOTSET)
    for (op, case, real), m in zip(reals, _ask_chunks(ctx, reqs)):
        if m != real:
            ctx.disagree(op, case, real, m)


def run(ctx):
    cases = [c for _, c in ctx.corpus()]
    if ctx.replay:
        cases = [json.load(open(ctx.replay))["case"]]
    n = 0
    for c in cases:
        run_case(ctx, c, n); n += 1
    if ctx.replay:
        return
    families_level(ctx)
    ped_text_level(ctx)
    samples_level(ctx)
    findrec_level(ctx)
    total = (36 if ctx.quick else 300) * ctx.scale
    for _ in range(total):
        run_case(ctx, gen_case(ctx.rng, scale=1 if ctx.quick else 2), n); n += 1
    if os.environ.get("C20_DEBUG"):
        for op, case, impl, model in ctx.disagreements:
            print("DEBUG-DISAGREE", op, json.dumps(case)[:400], "\nIMPL", str(impl)[:1200], "\nMODEL", str(model)[:1200])
    try:
        os.rmdir(ctx.workdir())
    except OSError:
        pass

"""C10 — haplotag conserves every alignment and tags it with the best-agreeing haplotype.

Per case (a generated phased VCF + BAM + options, harness/gen/c10_gen.py) the REAL CLI `whatshap haplotag` is run
twice (original VCF; VCF with two haplotypes of one phase set exchanged).  Checked:

* conservation (property oracle, Python): the output BAM, read with pysam, must be the input alignment list
  (with --regions: the input alignments overlapping a requested region) — same count, same order, every field
  and every tag other than HP/PS/PC identical;
* decision rule (property oracle, Python, independent of the Lean model): every tagged alignment's HP must be the
  strictly best haplotype of the reported PS by summed quality of the agreeing alleles of its read, PC the margin —
  evaluated on the alleles whatshap detects (ReadSetReader in-process) and on the alleles the generator put into the reads;
* correspondence: HP/PC/PS of every output alignment = Lean model (`c10.chrom`: prepare + tagAln) fed with (b) the
  detected alleles and (a) the ground-truth alleles assembled by the Lean model of create_read_from_group;
* symmetry: second run on the exchanged VCF: HP mapped by the transposition for alignments reported in that phase
  set (and belonging to that sample), everything else byte-identical;
* --output-haplotag-list agrees with the tags written;
* the whole run against the Lean model of `run_haplotag` (`c10.run`, Model/C10Run.lean: sample loop, contig loop with
  has_alignments / contig unknown to the VCF / --skip-missing-contigs, regions, write loop, list lines), fed with the phase
  information of the REAL `VcfReader` + `get_variant_information` (itself compared with `c10.varinfo`) and the read sets of the
  REAL `PhasedInputReader`: every written record (which input record, HP, PC, PS) and every list line must agree;
  `compute_variant_file_samples_to_use` / `compute_shared_samples` are called in-process and compared with `c10.samples`,
  and the error exits (unknown --sample, no shared sample, --ignore-read-groups without --sample, unknown region contig,
  contig missing from the VCF) must occur exactly when the model says so.
"""
import json, os, shutil

RULE = ("one case = one generated (phased VCF, BAM, option set) run through the real `whatshap haplotag` CLI (plus the run on "
        "the VCF with two haplotypes of a phase set exchanged); non-trivial if at least one alignment is tagged and at least one "
        "eligible alignment stays untagged or spans two phase sets; distinct = distinct case content")
MANIFEST = dict(
    text="Lean 4 theorems about a model of haplotag's decision rule (per-phase-set score accumulation = sum of agreeing "
         "allele qualities, strict maximum within the reported set, ties/no variants untagged, exchange symmetry for any "
         "ploidy) and of the whole run (sample selection, variant information, sample loop, contig loop with regions / contigs "
         "unknown to the VCF, write loop, haplotag list: conservation, list = tags, every written tag backed by a read cloud's "
         "decision); tied to the working tree by running the real CLI on generated VCF/BAM pairs and comparing every output "
         "record and list line with the input and with the model, and haplotag's helper functions in-process",
    design_ref="DESIGN.md §5 C10",
    note="proof of the decision rule and of conservation on the stream model; htslib/pysam record I/O and allele detection "
         "(C06) are trusted/differential; reported until repaired: F70 (--skip-missing-contigs leaves alignments out of the output, "
         "key skip-missing-contigs-drops), F71 (tags cross samples through equal read names / barcodes, key tags-cross-samples)",
    technique="Lean 4 proof (invariant of the accumulation loop = spec sums; permutation lemmas) + differential CLI runs",
)
ASSUMPTIONS = [
    "with --ignore-read-groups and several --sample every selected sample works on all reads and the later sample overwrites the "
    "earlier one; the order is the iteration order of a Python set of sample names: any order is accepted",
    "'its read' = the Read whatshap assembles (create_read_from_group): of two mates on opposite strands only the alleles of "
    "the last one with variants are used — recorded as an observation, see notes/C10.md",
    "with --regions 'every input alignment' means every input alignment overlapping a requested region",
]

THREE = ("HP", "PS", "PC")
MODES = ("detected", "truth", "truth_orig", "truth_per_region")
# alternative readings of the ground truth that reproduce a known defect: (mode, failure key, what)
ALTERNATIVES = (
    ("truth_orig", "paired-mate-dropped",
     "paired-end read: the alleles of the mate on the other strand are ignored (defect F12, create_read_from_group)"),
    ("truth_per_region", "regions-read-fetched-per-region",
     "--regions: a read overlapping several requested regions is delivered once per region by ReadSetReader (defect F23): "
     "more than two copies make the group 'more than two primary alignments' and the read stays untagged"),
)


# ------------------------------------------------------------------------------------------------
# reading BAMs
# ------------------------------------------------------------------------------------------------

def load_bam(path):
    import pysam
    out = []
    with pysam.AlignmentFile(path, check_sq=False) as f:
        header = f.header.to_dict()
        for a in f.fetch(until_eof=True):
            d = a.to_dict()
            tags = d.pop("tags")
            three = {}
            others = []
            for t in tags:
                k = t[:2]
                if k in THREE:
                    three[k] = t
                else:
                    others.append(t)
            placed = a.reference_id >= 0
            end = a.reference_end if (placed and a.reference_end is not None) else (a.reference_start + 1 if placed else None)
            out.append({"core": d, "others": others, "three": three, "name": a.query_name, "flag": a.flag,
                        "chrom": a.reference_name if placed else None, "start": a.reference_start if placed else None, "end": end,
                        "mapq": a.mapping_quality, "reverse": a.is_reverse,
                        "bx": a.get_tag("BX") if a.has_tag("BX") else None, "rg": a.get_tag("RG") if a.has_tag("RG") else None,
                        "tagvals": tuple((a.get_tag(k) if a.has_tag(k) else None) for k in ("HP", "PC", "PS"))})
    return header, out


def norm_regions(case):
    """{chrom: [(start, end|None)]} sorted and merged, chromosomes in BAM header order; None without --regions"""
    from harness.gen.c10_gen import parse_region
    regs = case["opts"].get("regions")
    if not regs:
        return None
    per = {}
    for spec in regs:
        c, s, e = parse_region(spec)
        per.setdefault(c, []).append((s, e))
    out = {}
    for c in case["contigs"]:
        if c not in per:
            continue
        rs = sorted(per[c], key=lambda r: r[0])
        merged = []
        for s, e in rs:
            if merged and (merged[-1][1] is None or s <= merged[-1][1]):
                ps, pe = merged[-1]
                merged[-1] = (ps, None if (pe is None or e is None) else max(pe, e))
            else:
                merged.append((s, e))
        out[c] = merged
    return out


def overlaps(rec, region):
    s, e = region
    return rec["end"] > s and (e is None or rec["start"] < e)


def multi_region(case):
    """several regions on one contig, or contigs not in BAM order (the situations of F17)"""
    from harness.gen.c10_gen import parse_region
    regs = case["opts"].get("regions")
    if not regs:
        return False
    chroms = [parse_region(r)[0] for r in regs]
    order = [c for c in case["contigs"]]
    firsts = []
    for c in chroms:
        if c not in firsts:
            firsts.append(c)
    return len(chroms) != len(set(chroms)) or firsts != [c for c in order if c in firsts]


# ------------------------------------------------------------------------------------------------
# what whatshap should use
# ------------------------------------------------------------------------------------------------

def samples_in_use(case):
    o = case["opts"]
    vcf = set(case["vcf_samples"])
    use = vcf if not o.get("sample") else vcf & set(o["sample"])
    if o.get("ignore_read_groups"):
        return sorted(use)
    bam = {(sm if sm is not None else "") for _, sm in (case["read_groups"] or [])}
    return sorted(bam & use)


def sample_variants(case, sample, chrom, regions):
    """indices of the phased heterozygous variants of the sample (inside the regions)"""
    ph = case["phasing"][sample][chrom]
    out = []
    for i, v in enumerate(case["variants"][chrom]):
        if ph["ps"][i] is None or len({ph["haps"][h][i] for h in range(case["ploidy"])}) == 1:
            continue
        if regions is not None and not any((v["pos"] + len(v["ref"]) > s) and (e is None or v["pos"] < e) for s, e in regions):
            continue
        out.append(i)
    return out


def phase_info(case, sample, chrom, idxs, swap=None):
    ph = case["phasing"][sample][chrom]
    out = []
    for i in idxs:
        col = [ph["haps"][h][i] for h in range(case["ploidy"])]
        if swap and swap["sample"] == sample and swap["chrom"] == chrom and swap["ps"] == ph["ps"][i]:
            col[swap["i"]], col[swap["j"]] = col[swap["j"]], col[swap["i"]]
        out.append([case["variants"][chrom][i]["pos"], ph["ps"][i], col])
    return out


def rg_ids(case, sample):
    return {rid for rid, sm in (case["read_groups"] or []) if sm == sample}


def usable(rec):
    f = rec["flag"]
    return not (f & 2048) and rec["mapq"] >= 20 and not (f & 256) and not (f & 4)


def truth_q(o, t, i):
    """quality of the allele the generator put on variant i of record t: 30 with a reference (constant of `realign`), else the
    base quality at the variant (`vq` of the records with per-base qualities, else the record's uniform quality)"""
    if not o.get("no_reference"):
        return 30
    for j, q in t.get("vq") or []:
        if j == i:
            return q
    return t["qual"]


def model_source(bam, chrom):
    """the alignment records of the contig as pysam delivers them (independent of whatshap), in the shape of `c10.detect`"""
    import pysam
    tag = lambda a, t, d: a.get_tag(t) if a.has_tag(t) else d
    with pysam.AlignmentFile(bam) as af:
        rgs = [[g["ID"], g.get("SM")] for g in af.header.to_dict().get("RG", [])]
        alns = []
        for a in af.fetch(chrom):
            ps = tag(a, "PS", -1)
            try:
                ps = int(ps)
            except ValueError:
                ps = None
            alns.append({"name": a.query_name, "flag": a.flag, "mapq": a.mapping_quality, "rg": tag(a, "RG", None), "start": a.reference_start,
                         "cigar": [list(x) for x in a.cigartuples] if a.cigartuples else None, "query": a.query_sequence,
                         "quals": list(a.query_qualities) if a.query_qualities is not None else None,
                         "bx": tag(a, "BX", ""), "hp": tag(a, "HP", -1), "ps": ps,
                         "end": a.reference_end})
    return {"rgs": rgs, "alns": alns}


def detect_correspondence(ctx, case, files, sample, chrom, vs, regions, reads):
    """`c10.detect` (Model/C10Detect.lean: C06's reader configured as run_haplotag does) = the REAL reader:
    (1) per alignment: what `_alignments_to_reads` yields on `_usable_alignments` (name, strand, span, alleles);
    (2) per alignment of the BAM, alone: `alnAlleles` = the alleles of the yielded AlignedRead, [] when filtered / nothing detected;
    (3) the reads of `PhasedInputReader.read` as a set keyed by name (read-set order is a hash order: seam)."""
    from whatshap.variants import ReadSetReader
    from whatshap.core import NumericSampleIds
    from whatshap.utils import IndexedFasta
    fa, _, bam = files
    o = case["opts"]
    irg = bool(o.get("ignore_read_groups"))
    noref = bool(o.get("no_reference"))
    try:
        vjson = [[v.position, v.reference_allele, [v.alternative_allele]] for v in vs]
    except AttributeError:
        return
    bam_sample = None if irg else sample
    impl_alns, impl_err = None, None
    reader = ReadSetReader([bam], None if noref else fa, NumericSampleIds(), duplicates=True)
    try:
        try:
            refseq = None if noref else IndexedFasta(fa)[chrom]
            usable_ = reader._usable_alignments(chrom, bam_sample, regions)
            impl_alns = [[a.read.name, bool(a.is_supplementary), bool(a.is_reverse), a.reference_start, a.reference_end,
                          [[v.position, v.allele, v.quality] for v in a.read]]
                         for a in reader._alignments_to_reads(usable_, vs, bam_sample, refseq, None)]
        except Exception as e:
            impl_err = type(e).__name__
    finally:
        reader.close()
    src = model_source(bam, chrom)
    ends = [a.pop("end") for a in src["alns"]]
    m = ctx.model.ask(op="c10.detect", sources=[src], ignoreRG=irg, sample=sample, regions=[list(r) for r in regions] if regions is not None else None,
                      variants=vjson, reference=None if noref else case["contigs"][chrom])
    ctx.evaluated()
    where = {"chrom": chrom, "sample": sample, "regions": regions, "opts": o, "variants": vjson}
    ctx.dist("c10.detect", ("error " + str(impl_err)) if impl_err else f"{'no-reference' if noref else 'reference'}, {min(len(impl_alns), 20) // 5 * 5}+ alignments with alleles")
    if impl_err is not None or m.get("alnsErr") is not None:
        if impl_err != m.get("alnsErr"):
            ctx.disagree("c10.detect/error", where, impl_err, m.get("alnsErr"))
        return
    if impl_alns != m.get("alns"):
        diff = [(a, b) for a, b in zip(impl_alns, m.get("alns") or []) if a != b][:3]
        ctx.disagree("c10.detect/alignments", where, {"n": len(impl_alns), "first": diff or impl_alns[:3]}, {"n": len(m.get("alns") or []), "first": (m.get("alns") or [])[:3]})
        return
    # (2) every alignment on its own
    it, each = 0, []
    for a, end in zip(src["alns"], ends):
        exp = []
        if it < len(impl_alns):
            y = impl_alns[it]
            if (y[0], y[1], y[2], y[3], y[4]) == (a["name"], bool(a["flag"] & 2048), bool(a["flag"] & 16), a["start"], end) and \
                    (regions is None or any(overlaps({"start": a["start"], "end": end}, r) for r in regions)):
                exp = y[5]; it += 1
        each.append(exp)
    if regions is None and each != m.get("each"):
        k = next((i for i, (x, y) in enumerate(zip(each, m.get("each") or [])) if x != y), None)
        ctx.disagree("c10.detect/alignment-alone", dict(where, aln=src["alns"][k] if k is not None else None), each[k] if k is not None else len(each),
                     (m.get("each") or [None])[k] if k is not None else len(m.get("each") or []))
        return
    # (3) the reads
    if sorted(reads) != sorted(m.get("reads") or [], key=lambda r: r[:2]) and sorted(map(json.dumps, reads)) != sorted(map(json.dumps, m.get("reads") or [])):
        ctx.disagree("c10.detect/reads", where, sorted(map(json.dumps, reads))[:4], sorted(map(json.dumps, m.get("reads") or []))[:4])


def detected_reads(case, files, sample, chrom, idxs, regions, vs=None, cache=None, ctx=None):
    """(b) what whatshap itself detects: the ReadSet of PhasedInputReader, in read-set order.
    vs: the variant objects to use (default: built from the case's variant list, indices idxs)"""
    from whatshap.cli import PhasedInputReader
    from whatshap.core import NumericSampleIds
    from whatshap.vcf import BiallelicVcfVariant
    fa, _, bam = files
    o = case["opts"]
    if vs is None:
        vs = [BiallelicVcfVariant(case["variants"][chrom][i]["pos"], case["variants"][chrom][i]["ref"], case["variants"][chrom][i]["alt"])
              for i in idxs]
    key = (sample, chrom, tuple((v.position, v.reference_allele, v.alternative_allele) for v in vs),
           tuple(tuple(r) for r in (regions if regions is not None else [(0, None)])))
    if cache is not None and key in cache:
        return cache[key]
    with PhasedInputReader([bam], None if o.get("no_reference") else fa, NumericSampleIds(), bool(o.get("ignore_read_groups")),
                           only_snvs=False, duplicates=True) as pir:
        rs, _ = pir.read(chrom, vs, sample, regions=regions if regions is not None else [(0, None)])
        out = []
        for r in rs:
            out.append([r.name, r.reference_start, (r.BX_tag if r.has_BX_tag() else None),
                        [[v.position, v.allele, v.quality] for v in r]])
    if cache is not None:
        cache[key] = out
    if ctx is not None:
        detect_correspondence(ctx, case, files, sample, chrom, vs, regions, out)
    return out


def truth_groups(case, inrecs, truth_of, sample, chrom, idxs, regions, per_region=False):
    """(a) ground truth: the usable alignments of the sample with the alleles the generator put in, grouped by read
    name (request for the Lean model of create_read_from_group).

    per_region=False: every alignment overlapping a requested region once, in file order (a read is one read however the
    requested area is cut into regions; behaviour after fixes/F23.patch).
    per_region=True: the code before F23: `_usable_alignments` fetches region by region, so an alignment overlapping k
    regions is delivered k times, and `_alignments_to_reads` never moves its variant pointer back: a re-delivered
    alignment only shows the variants at or right of the pointer."""
    o = case["opts"]
    ids = rg_ids(case, sample)
    var_pos = sorted(case["variants"][chrom][i]["pos"] for i in idxs)
    pos_ok = set(var_pos)
    groups, order, bx = {}, [], {}
    regs = regions if regions is not None else [(0, None)]
    if per_region:
        deliveries = [(k, rec) for region in regs for k, rec in enumerate(inrecs) if rec["chrom"] == chrom and overlaps(rec, region)]
    else:
        deliveries = [(k, rec) for k, rec in enumerate(inrecs) if rec["chrom"] == chrom and any(overlaps(rec, region) for region in regs)]
    ptr = 0
    for k, rec in deliveries:
        if not usable(rec):
            continue
        if not o.get("ignore_read_groups") and rec["rg"] not in ids:
            continue
        while ptr < len(var_pos) and var_pos[ptr] < rec["start"]:
            ptr += 1
        floor = var_pos[ptr] if ptr < len(var_pos) else None
        t = truth_of[k]
        rvs = [[case["variants"][chrom][i]["pos"], a, truth_q(o, t, i)] for i, a in t["truth"]
               if case["variants"][chrom][i]["pos"] in pos_ok and floor is not None and case["variants"][chrom][i]["pos"] >= floor]
        if not rvs:
            continue
        if rec["name"] not in groups:
            groups[rec["name"]] = []; order.append(rec["name"])
        groups[rec["name"]].append([False, bool(rec["reverse"]), rec["start"], rec["end"], rvs])
        bx[rec["name"]] = rec["bx"]
    return order, groups, bx


# ------------------------------------------------------------------------------------------------
# independent oracle of the decision rule
# ------------------------------------------------------------------------------------------------

def agree_scores(ploidy, info, rvs):
    """{ps: [score per haplotype]} — plain sums, written independently of the model"""
    by_pos = {p: (ps, col) for p, ps, col in info}
    out = {}
    for pos, allele, q in rvs:
        if pos not in by_pos:
            continue
        ps, col = by_pos[pos]
        for h in range(ploidy):
            if col[h] == allele:
                out.setdefault(ps, [0] * ploidy)[h] += q
    return out


def check_rule(ploidy, info, rvs, hp, pc, ps):
    """None if (hp, pc, ps) is a correct tagging of a read with variants rvs, else a message"""
    sc = agree_scores(ploidy, info, rvs)
    if ps not in sc:
        return f"reported phase set {ps} has no allele of the read (sets touched: {sorted(sc)})"
    s = sc[ps]
    if not (1 <= hp <= ploidy):
        return f"HP {hp} out of range"
    best = s[hp - 1]
    rest = [x for i, x in enumerate(s) if i != hp - 1]
    if not all(x < best for x in rest):
        return f"HP {hp} is not the strictly best haplotype of PS {ps}: scores {s}"
    if pc is not None and pc != best - max(rest):
        return f"PC {pc} is not the margin of scores {s}"
    return None


def decide_read(ploidy, info, rvs):
    """(HP, PC, PS) the property demands for a read judged on its own with the alleles rvs (sorted by position), or
    (None, None, None): the phase set with the largest best score (the first touched one among equals), its strictly best
    haplotype, PC = margin; a tie or no phased heterozygous variant leaves the read untagged.  Plain Python, no model"""
    sc = agree_scores(ploidy, info, sorted(rvs))
    pick = None
    for ps, s in sc.items():
        if pick is None or max(s) > max(sc[pick]):
            pick = ps
    if pick is None:
        return (None, None, None)
    s = sc[pick]
    m = max(s)
    h = s.index(m)
    second = max(x for i, x in enumerate(s) if i != h)
    if second == m:
        return (None, None, None)
    return (h + 1, m - second, pick)


def read_key(case, rec):
    """a read = (sample of its read group, name): reads of different samples that share a name are different reads
    (with --ignore-read-groups there is one pool of reads: the name alone)"""
    return rec["name"] if case["opts"].get("ignore_read_groups") else (aln_sample(case, rec), rec["name"])


def records_per_read(case, inrecs):
    per = {}
    for r in inrecs:
        if r["chrom"] is not None:
            per[read_key(case, r)] = per.get(read_key(case, r), 0) + 1
    return per


def shared_name_reads_check(ctx, case, slim, chrom, regs, used, inrecs, exp_idx, idx_exp, cur, truth_of, swap, shared):
    """Read names that occur in SEVERAL samples on this chromosome (BAM merged from runs whose read names are only unique per
    run; read groups not ignored): every such alignment is a read of ITS sample (read group -> SM) and must be judged against
    that sample's haplotypes, whatever happened to the equally named read of another sample.  For the alignments that are a read
    of their own within their sample (one record of that (sample, name); not in a read cloud) the tag the property demands is
    computed here from the generator's truth alone (alleles put into the read, phasing of the read's sample, plain Python) and
    compared with what haplotag wrote: best-agreeing haplotype -> HP/PC/PS, tie / no phased heterozygous variant / sample not
    in use / record not used -> untagged.  (Mates, supplementary records and read clouds with a shared name go through the
    ground-truth correspondence with the Lean model, whose request is keyed by (sample, name) as well.)"""
    o = case["opts"]
    if o.get("ignore_read_groups") or not shared:
        return
    linked_on = o.get("linked_read_distance_cutoff") is not None and not o.get("ignore_linked_read")
    per_read = records_per_read(case, inrecs)
    judged = 0
    for k in idx_exp:
        rec = cur[k]
        sams = shared.get((chrom, rec["name"]))
        if not sams or len(sams) < 2:
            continue
        if per_read.get(read_key(case, rec), 0) != 1 or (linked_on and rec["bx"] is not None):
            continue
        t = truth_of[exp_idx[k]]
        sa = aln_sample(case, rec)
        exp, rvs, why = (None, None, None), [], "its sample is not in use"
        if sa in used:
            why = "the record is not used (unmapped / secondary / supplementary / MAPQ < 20)"
            if usable(rec):
                idxs = set(sample_variants(case, sa, chrom, regs))
                info = phase_info(case, sa, chrom, sorted(idxs), swap)
                rvs = [[case["variants"][chrom][i]["pos"], a, truth_q(o, t, i)] for i, a in t["truth"] if i in idxs]
                exp = decide_read(case["ploidy"], info, rvs)
                why = "scores %s" % {ps: sc for ps, sc in agree_scores(case["ploidy"], info, sorted(rvs)).items()}
        judged += 1
        if swap is None:
            ctx.dist("shared_name_read_expected", "tagged" if exp[0] is not None else ("untagged: " + (why if not why.startswith("scores") else "tie or no phased het variant")))
            ctx.dist("shared_name_read_position", "sample %d of %d in use" % (used.index(sa) + 1, len(used)) if sa in used else "sample not in use")
        if tuple(rec["tagvals"]) != exp:
            others = sorted(str(x) for x in sams if x != sa)
            ctx.fail(f"{'exchanged VCF, ' if swap else ''}{chrom} {rec['name']} (read group {rec['rg']}, sample {sa!r}, start {rec['start']}, flag {rec['flag']}): the name also occurs on "
                     f"a read of sample(s) {others} on this chromosome, but this alignment is a read of sample {sa!r}: it carries alleles {sorted(rvs)} (position, allele, quality), "
                     f"against the haplotypes of its own sample ({why}) the property demands HP/PC/PS {list(exp)}, haplotag wrote {list(rec['tagvals'])} (samples in use: {used})",
                     slim, key="shared-name-own-sample")
    if swap is None:
        ctx.dist("shared_name_reads_judged", min(judged // 10 * 10, 50) if judged >= 10 else min(judged, 9))


def boundary_reads_check(ctx, case, slim, chrom, regs, used, inrecs, exp_idx, idx_exp, cur, truth_of, swap):
    """Alignments whose first / last aligned base is exactly a phased heterozygous SNV (generator stream `add_boundary_reads`):
    the read covers that SNV fully, so its allele counts like any other.  For the boundary reads that are a read of their own
    (one record of that name) the expected tag is computed here from the generator's truth alone — neither the reader's
    output nor the Lean model is consulted — and compared with what haplotag wrote.  (Mates / supplementary records on a
    boundary are judged by the ground-truth correspondence through the Lean model of create_read_from_group.)"""
    o = case["opts"]
    per_name = records_per_read(case, inrecs)
    for k in idx_exp:
        t = truth_of[exp_idx[k]]
        b = t.get("bnd")
        if not b:
            continue
        rec = cur[k]
        if swap is None:
            ctx.dist("boundary_side_kind", f"{b['side']}/{b['kind']}"); ctx.dist("boundary_clip", b["clip"]); ctx.dist("boundary_role", b["role"])
            ctx.dist("boundary_variant_type", "SNV" if b.get("snv", True) else "indel anchor on the first aligned base")
        if per_name.get(read_key(case, rec), 0) != 1:
            continue
        owners = [s for s in used if o.get("ignore_read_groups") or rec["rg"] in rg_ids(case, s)]
        if len(owners) > 1:
            continue
        exp, without, rvs = (None, None, None), (None, None, None), []
        if owners and usable(rec):
            s = owners[0]
            idxs = set(sample_variants(case, s, chrom, regs))
            info = phase_info(case, s, chrom, sorted(idxs), swap)
            rvs = [[case["variants"][chrom][i]["pos"], a, truth_q(o, t, i)] for i, a in t["truth"] if i in idxs]
            exp = decide_read(case["ploidy"], info, rvs)
            without = decide_read(case["ploidy"], info, [v for v in rvs if v[0] not in b["pos"]])
        if swap is None:
            eff = ("read not used" if not (owners and usable(rec)) else "boundary variant not in the table" if not any(v[0] in b["pos"] for v in rvs)
                   else "none" if exp == without else "untagged without it" if without[0] is None else "tie with it" if exp[0] is None
                   else "other HP or PS" if (exp[0], exp[2]) != (without[0], without[2]) else "PC only")
            ctx.dist("boundary_variant_effect", eff)
        if tuple(rec["tagvals"]) != exp:
            end = rec["end"] - 1
            where = " and ".join(f"{w} aligned base {p + 1}" for w, p in (("first", rec["start"]), ("last", end)) if p in b["pos"])
            ctx.fail(f"{'exchanged VCF, ' if swap else ''}{chrom} {rec['name']} (CIGAR {rec['core'].get('cigar')}, flag {rec['flag']}, {'--no-reference' if o.get('no_reference') else '--reference'}): "
                     f"its {where} is exactly a phased heterozygous {'SNV' if b.get('snv', True) else 'variant (first base = anchor of an indel)'}; the read carries alleles {sorted(rvs)} (position, allele, quality), "
                     f"the best-agreeing haplotype gives HP/PC/PS {list(exp)} (without the boundary variant: {list(without)}), haplotag wrote {list(rec['tagvals'])}",
                     slim, key="boundary-variant")


def merge_observations(records):
    """what `create_read_from_group` documents for the alignments of one read (in file order): a variant seen by several
    alignments with the SAME allele is ONE observation (the unchanged code keeps the Variant object inserted first, i.e. the
    quality of the first alignment in file order); a variant on which they show different alleles is dropped.  Plain Python"""
    seen, conflict = {}, set()
    for rvs in records:
        for pos, allele, q in rvs:
            if pos in seen:
                if seen[pos][0] != allele:
                    conflict.add(pos)
            else:
                seen[pos] = (allele, q)
    return sorted([p, a, q] for p, (a, q) in seen.items() if p not in conflict)


def overlapping_mates_check(ctx, case, slim, chrom, regs, used, inrecs, exp_idx, idx_exp, cur, truth_of, swap):
    """Read pairs whose mates overlap each other on a phased heterozygous SNV (generator stream `add_overlapping_mates`, seed
    C10-h).  Expected tag of BOTH mates, from the generator's truth alone (no reader output, no Lean): the observations of the
    two mates merged as documented (`merge_observations`), then the best-agreeing haplotype (`decide_read`).  A pair primary +
    supplementary: the supplementary record contributes nothing (haplotag's reader drops it), and is written with the primary's
    tag exactly with --tag-supplementary."""
    o = case["opts"]
    per_name = records_per_read(case, inrecs)
    pairs = {}
    for k in idx_exp:
        t = truth_of[exp_idx[k]]
        if t.get("ovl"):
            pairs.setdefault(t["ovl"]["pair"], []).append(k)
    for pid, ks in sorted(pairs.items()):
        if len(ks) != 2:
            continue                      # one record outside the requested regions
        ks.sort()
        recs = [cur[k] for k in ks]
        ts = [truth_of[exp_idx[k]] for k in ks]
        ov = ts[0]["ovl"]
        if per_name.get(read_key(case, recs[0]), 0) != 2:
            continue
        owners = [s for s in used if o.get("ignore_read_groups") or recs[0]["rg"] in rg_ids(case, s)]
        if len(owners) > 1:
            continue
        exp, merged, each = (None, None, None), [], []
        if owners:
            s = owners[0]
            idxs = set(sample_variants(case, s, chrom, regs))
            info = phase_info(case, s, chrom, sorted(idxs), swap)
            each = [[[case["variants"][chrom][i]["pos"], a, truth_q(o, t, i)] for i, a in t["truth"] if i in idxs]
                    for rec, t in zip(recs, ts) if usable(rec)]
            merged = merge_observations(each)
            exp = decide_read(case["ploidy"], info, merged)
        if swap is None:
            ctx.dist("overlapping_mates_kind", ov["kind"]); ctx.dist("overlapping_mates_quality", ov["qmode"] if o.get("no_reference") else "constant 30 (--reference)")
            both = [p for p in {v[0] for v in each[0]} & {v[0] for v in each[1]}] if len(each) == 2 else []
            ctx.dist("overlapping_mates_doubly_covered", "none" if not both else "same allele, different quality" if any(
                a[1] == b[1] and a[2] != b[2] for a in each[0] for b in each[1] if a[0] == b[0]) else "other")
            ctx.dist("overlapping_mates_expected", "untagged" if exp[0] is None else "tagged")
        for rec in recs:
            want = exp
            if rec["flag"] & 2048:
                want = exp if o.get("tag_supplementary") else (None, None, None)
            if tuple(rec["tagvals"]) != want:
                ctx.fail(f"{'exchanged VCF, ' if swap else ''}{chrom} {rec['name']} (flag {rec['flag']}, start {rec['start'] + 1}, {'--no-reference' if o.get('no_reference') else '--reference'}): "
                         f"the two records of this read overlap each other at position {ov['x'] + 1} ({ov['kind']}); they carry {each} (position, allele, quality) per record, merged "
                         f"(agreeing alleles = one observation, conflicting = none) {merged}; the best-agreeing haplotype gives HP/PC/PS {list(want)}, "
                         f"haplotag wrote {list(rec['tagvals'])}", slim, key="overlapping-mates")
                break


# ------------------------------------------------------------------------------------------------
# the whole run against the Lean model of run_haplotag (Model/C10Run.lean)
# ------------------------------------------------------------------------------------------------

SEP = "\x1f"
ERROR_TEXT = {
    "sampleNotInVcf": "but are not part of the input VCF",
    "needSampleOption": "samples to be used must be specified",
    "noSharedSamples": "No common samples between VCF and BAM",
    "regionContig": "not found in input BAM/CRAM",
    "contigNotInVcf": "does not exist in the VCF",
    "noVcfSamples": "No samples detected in VCF",
}


def aln_sample(case, rec):
    """sample of an alignment through its read group ('' = read group without SM); None: no RG tag, unknown RG, no @RG lines"""
    if not case["read_groups"] or rec["rg"] is None:
        return None
    for rid, sm in case["read_groups"]:
        if rid == rec["rg"]:
            return sm if sm is not None else ""
    return None


def find_collisions(case, inrecs):
    """read names and barcodes that occur on alignments of more than one sample (read groups not ignored)"""
    if case["opts"].get("ignore_read_groups"):
        return set(), set(), {}
    by_name, by_bx = {}, {}
    for r in inrecs:
        if r["chrom"] is None:
            continue
        sa = aln_sample(case, r)
        by_name.setdefault((r["chrom"], r["name"]), set()).add(sa)
        if r["bx"] is not None:
            by_bx.setdefault((r["chrom"], r["bx"]), set()).add(sa)
    return ({n for (_, n), ss in by_name.items() if len(ss) > 1}, {b for (_, b), ss in by_bx.items() if len(ss) > 1},
            {k: ss for k, ss in by_name.items() if len(ss) > 1})


def sample_selection(ctx, case, files):
    """the two sample functions of haplotag called in-process, compared with Lean `c10.samples`;
    returns the model's error class or None"""
    import pysam
    from whatshap.vcf import VcfReader
    from whatshap.cli.haplotag import compute_variant_file_samples_to_use, compute_shared_samples
    fa, vcf, bam = files
    o = case["opts"]
    irg = bool(o.get("ignore_read_groups"))
    given = list(o["sample"]) if o.get("sample") else None
    with VcfReader(vcf, only_snvs=False, phases=True, ploidy=case["ploidy"]) as vr:
        vcf_samples = list(vr.samples)
    with pysam.AlignmentFile(bam) as br:
        bam_samples = sorted({(rg["SM"] if "SM" in rg else "") for rg in br.header.to_dict().get("RG", [])})

        def classify(e):
            t = str(e)
            return next((k for k, txt in ERROR_TEXT.items() if txt in t), "other:" + t[:80])
        try:
            use = compute_variant_file_samples_to_use(vcf_samples, given, irg)
            impl_use = sorted(use)
        except Exception as e:          # noqa: the error class is the observable
            use, impl_use = None, {"error": classify(e)}
        if use is None:
            impl_shared = impl_use
        else:
            try:
                impl_shared = sorted(compute_shared_samples(br, irg, use))
            except Exception as e:      # noqa
                impl_shared = {"error": classify(e)}
    ans = ctx.model.ask("c10.samples", vcf=vcf_samples, given=given, ignoreRG=irg, bam=bam_samples)
    norm = lambda x: sorted(x) if isinstance(x, list) else x
    if norm(ans["use"]) != impl_use or norm(ans["shared"]) != impl_shared:
        ctx.disagree("c10.samples", {"case": case, "vcf": vcf_samples, "bam": bam_samples, "given": given, "ignoreRG": irg},
                     {"use": impl_use, "shared": impl_shared}, ans)
    ctx.dist("sample_selection", "ok" if isinstance(ans["shared"], list) else ans["shared"]["error"])
    if isinstance(ans["shared"], dict):
        return ans["shared"]["error"]
    if impl_shared != samples_in_use(case):
        ctx.disagree("c10.samples/harness-oracle", {"case": case}, impl_shared, samples_in_use(case))
    return None


def real_tables(ctx, case, files, sel, samples):
    """{chrom: None (contig unknown to the VCF) | {sample: (info rows, variant objects)}} through the REAL VcfReader and
    get_variant_information; the latter is compared with Lean `c10.varinfo` (fed with the table's genotypes and phases)"""
    from whatshap.vcf import VcfReader, VcfInvalidChromosome
    from whatshap.cli.haplotag import get_variant_information
    fa, vcf, bam = files
    out, reqs, impls = {}, [], []
    enc = lambda a: a if isinstance(a, int) and 0 <= a < 9 else 9
    with VcfReader(vcf, only_snvs=False, phases=True, ploidy=case["ploidy"]) as vr:
        for chrom, regs in sel.items():
            try:
                table = vr.fetch_regions(chrom, regs)
            except VcfInvalidChromosome:
                out[chrom] = None
                continue
            per = {}
            for s in samples:
                info, variants = get_variant_information(table, s)
                rows = sorted([pos, int(ps), [enc(a) for a in ph]] for pos, (ps, ph) in info.items())
                per[s] = (rows, variants)
                calls = []
                for v, gt, ph in zip(table.variants, table.genotypes_of(s), table.phases_of(s)):
                    calls.append([v.position, bool(gt.is_homozygous()),
                                  None if ph is None else [None if ph.block_id is None else int(ph.block_id), [enc(a) for a in ph.phase]]])
                reqs.append(dict(op="c10.varinfo", calls=calls))
                impls.append((chrom, s, {"info": rows, "variants": [v.position for v in variants]}))
                ctx.dist("table_records_without_phase", min(sum(1 for c in calls if c[2] is None or c[2][0] is None), 5))
            out[chrom] = per
    for (chrom, s, impl), ans in zip(impls, ctx.model.ask_many(reqs) if reqs else []):
        if ans != impl:
            ctx.disagree("c10.varinfo", {"case": case, "chrom": chrom, "sample": s}, impl, ans)
    return out


def run_request(case, inrecs, per, tables, reads_of, order, qualify, write_missing, light=False):
    """request for Lean `c10.run`.  qualify: read names and barcodes are made unique per sample (the behaviour after
    fixes/F71.patch: the dictionaries are keyed by sample); an alignment belongs to the sample of its read group"""
    from harness.gen.c10_gen import parse_region
    o = case["opts"]
    contigs = list(case["contigs"])
    q = (lambda sm, x: x if (x is None or not qualify) else f"{sm}{SEP}{x}")
    creq = []
    for ci, chrom in enumerate(contigs):
        alns = []
        for k in per[ci]:
            r = inrecs[k]
            sa = aln_sample(case, r)
            sa = "~none~" if sa is None else sa
            alns.append([q(sa, r["name"]), bool(r["flag"] & 4), bool(r["flag"] & 256), bool(r["flag"] & 2048), r["start"], r["end"], q(sa, r["bx"])])
        t = tables.get(chrom, "absent")
        samples = []
        if not light and t not in (None, "absent"):
            for s in order:
                rows, _ = t[s]
                samples.append({"phase": rows, "reads": [[q(s, n), st, q(s, bx), rvs] for n, st, bx, rvs in reads_of[(chrom, s)]]})
        creq.append({"alns": alns, "inVcf": (chrom in case["vcf_contigs"]) if t == "absent" else (t is not None), "samples": samples})
    regions = None
    if o.get("regions"):
        regions = [[contigs.index(c), s_, e_] for c, s_, e_ in (parse_region(r) for r in o["regions"])]
    return dict(op="c10.run", ploidy=case["ploidy"],
                cutoff=(o.get("linked_read_distance_cutoff") if o.get("linked_read_distance_cutoff") is not None else 50000),
                ignoreLinked=bool(o.get("ignore_linked_read")), tagSupp=bool(o.get("tag_supplementary")),
                skipMissing=bool(o.get("skip_missing_contigs")), writeMissing=bool(write_missing), regions=regions, contigs=creq)


def model_run_check(ctx, case, files, inrecs, outrecs, exp_idx, lines, regions, used, write_missing, det_cache):
    """the whole successful run against Lean `c10.run`"""
    import itertools
    o = case["opts"]
    contigs = list(case["contigs"])
    per = [[] for _ in contigs]
    pos_of = {}
    for k, r in enumerate(inrecs):
        if r["chrom"] in contigs:
            ci = contigs.index(r["chrom"])
            pos_of[k] = (ci, len(per[ci]))
            per[ci].append(k)
    sel = regions if regions is not None else {c: [(0, None)] for c in contigs}
    sel = {c: regs for c, regs in sel.items() if per[contigs.index(c)]}            # `chrom not in has_alignments`
    tables = real_tables(ctx, case, files, sel, used)
    reads_of = {}
    for chrom, t in tables.items():
        if t is None:
            continue
        for s in used:
            rows, variants = t[s]
            reads_of[(chrom, s)] = detected_reads(case, files, s, chrom, None, sel[chrom], vs=variants, cache=det_cache, ctx=ctx)
    impl_written = [[*pos_of[k], *outrecs[j]["tagvals"]] for j, k in enumerate(exp_idx) if inrecs[k]["chrom"] is not None]
    n_tail_out = sum(1 for k in exp_idx if inrecs[k]["chrom"] is None)
    n_tail_in = sum(1 for r in inrecs if r["chrom"] is None)

    impl = {"written": impl_written, "list": lines, "tail": n_tail_out}

    def shape(req, ans):
        if ans.get("error"):
            return {"error": ans["error"]}
        # read clouds with tied phase sets: the reported set depends on the iteration order of a Python set of Read objects;
        # the alignments of such a cloud (and those that may be tagged through its barcode) are compared by position only
        mask, mnames = set(), set()
        for ci, names_ in enumerate(ans["ambiguous"]):
            if not names_:
                continue
            al = req["contigs"][ci]["alns"]
            bxs = {a[6] for a in al if a[0] in names_ and a[6] is not None}
            for k, a in enumerate(al):
                if a[0] in names_ or (a[6] is not None and a[6] in bxs):
                    mask.add((ci, k)); mnames.add((ci, a[0]))
        if mask:
            ctx.observe("read cloud with tied phase sets (whole-run model): its alignments are compared by position only")
        return {"written": ans["written"], "list": ans["list"], "tail": n_tail_in if ans["tail"] else 0, "mask": mask, "mnames": mnames}

    def same(m):
        if "error" in m or m["tail"] != impl["tail"] or len(m["written"]) != len(impl["written"]) or len(m["list"]) != len(impl["list"]):
            return False
        for a, b in zip(impl["written"], m["written"]):
            if a[:2] != b[:2] or (a[2:] != b[2:] and (b[0], b[1]) not in m["mask"]):
                return False
        for a, l in zip(impl["list"], m["list"]):
            b = [l[0].split(SEP)[-1], "none" if l[1] is None else f"H{l[1]}", "none" if l[2] is None else str(l[2]), contigs[l[3]]]
            if a != b and not (a[0] == b[0] and a[3] == b[3] and (l[3], l[0]) in m["mnames"]):
                return False
        return True

    def show(m):
        return {k: v for k, v in m.items() if k in ("error", "written", "list", "tail")}
    irg = bool(o.get("ignore_read_groups"))
    perms = [list(p) for p in itertools.permutations(used)][:24]
    first = None
    if not irg:
        req = run_request(case, inrecs, per, tables, reads_of, used, True, write_missing)
        first = shape(req, ctx.model.ask(**req))
        if same(first):
            ctx.dist("c10.run", "agrees (dictionaries per sample)")
            return
    # the code as it is: one dictionary for all samples, the result may depend on the (set) order of the samples
    reqs = [run_request(case, inrecs, per, tables, reads_of, p, False, write_missing) for p in perms]
    cand = [shape(r_, a_) for r_, a_ in zip(reqs, ctx.model.ask_many(reqs))]
    if first is None:
        first = cand[0]
    if any(same(c) for c in cand):
        if irg:
            ctx.dist("c10.run", "agrees (read groups ignored%s)" % (", sample order matters" if any(show(c) != show(cand[0]) for c in cand) else ""))
            return
        # only explained by tags leaking from one sample to another
        diff = next(((a, b) for a, b in zip(impl["written"], first.get("written", [])) if a != b and (b[0], b[1]) not in first["mask"]), None)
        what = ""
        if diff:
            k = per[diff[0][0]][diff[0][1]]
            r = inrecs[k]
            what = (f": alignment {r['name']} (read group {r['rg']}, sample {aln_sample(case, r)!r}, {r['chrom']}:{r['start']}, BX {r['bx']}) is written with "
                    f"HP/PC/PS {diff[0][2:]}, its own sample's reads give {diff[1][2:]}")
        ctx.fail("a read name or barcode shared by two samples: the alignment receives the haplotype decided for the OTHER sample's read "
                 "(read_to_haplotype / BX_tag_to_haplotype are keyed by name / barcode only; samples in use: %s)%s" % (used, what),
                 case, key="tags-cross-samples")
        ctx.dist("c10.run", "F71: explained only by one dictionary for all samples")
        return
    ctx.dist("c10.run", "DISAGREES")
    ctx.disagree("c10.run", {"case": case}, impl, show(first))

# ------------------------------------------------------------------------------------------------
# one case
# ------------------------------------------------------------------------------------------------

def compare_streams(expected, outrecs):
    """first difference between the expected alignment list and the output, or None"""
    n = min(len(expected), len(outrecs))
    for i in range(n):
        e, o = expected[i], outrecs[i]
        if e["core"] != o["core"]:
            diff = [k for k in e["core"] if e["core"][k] != o["core"].get(k)]
            return f"record {i}: expected {e['name']} flag {e['flag']} at {e['chrom']}:{e['start']}, got {o['name']} flag {o['flag']} at {o['chrom']}:{o['start']} (fields {diff})"
        if e["others"] != o["others"]:
            return f"record {i} ({e['name']}): tags other than HP/PS/PC differ: {e['others']} -> {o['others']}"
    if len(expected) != len(outrecs):
        return f"{len(outrecs)} alignments written, {len(expected)} expected"
    return None


def run_case(ctx, case, d):
    from harness.gen import sim, c10_gen
    shutil.rmtree(d, ignore_errors=True)
    fa, vcf, bam = c10_gen.materialize(case, d)
    files = (fa, vcf, bam)
    o = case["opts"]
    out, lst = os.path.join(d, "out.bam"), os.path.join(d, "list.tsv")
    rc, so, se, _ = sim.whatshap(c10_gen.haplotag_args(case, fa, vcf, bam, out, lst), ctx.overlay)
    ctx.evaluated()
    slim = case
    ctx.dist("ploidy", case["ploidy"]); ctx.dist("n_alignments", len(case["alns"]) // 20 * 20)
    ctx.dist("options", ",".join(k for k in ("regions", "tag_supplementary", "ignore_read_groups", "no_reference", "ignore_linked_read", "sample")
                                   if o.get(k)) + (",bx" if o.get("linked_read_distance_cutoff") is not None else "") + f",thr{o.get('output_threads', 1)}")
    ctx.dist("encoding", case["encoding"])
    ctx.dist("special_input", ",".join(k for k in ("collisions", "shared_barcodes", "extras", "skip_missing") if (case.get(k) or o.get(k + "_contigs"))) or "-")
    multi = multi_region(case)
    rkey = "regions-multi" if multi else "conservation"
    _, inrecs = load_bam(bam)
    # ---- sample selection and the error exits (Model/C10Run.lean: samplesToUse, sharedSamples, planContig)
    from harness.gen.c10_gen import parse_region
    predicted = sample_selection(ctx, case, files)
    if predicted is None and o.get("regions") and any(parse_region(r)[0] not in case["contigs"] for r in o["regions"]):
        predicted = "regionContig"
    if predicted is None:
        contigs_ = list(case["contigs"])
        per_ = [[k for k, r in enumerate(inrecs) if r["chrom"] == c] for c in contigs_]
        light = ctx.model.ask(**run_request(case, inrecs, per_, {}, {}, [], False, False, light=True))
        predicted = light.get("error")
    ctx.dist("expected_exit", predicted or "ok")
    if case.get("expect_error") and predicted != case["expect_error"]:
        ctx.observe(f"generator meant to provoke {case['expect_error']}, model predicts {predicted}")
    if rc != 0 or predicted:
        msg = " ".join((se.strip().splitlines() or ["?"])[-3:])[-600:]
        if rc != 0 and predicted and ERROR_TEXT[predicted] in msg:
            ctx.observe(f"error exit as modelled: {predicted}")
            ctx.validated()
            return
        if rc == 0:
            ctx.disagree("c10.run/error-exit", {"case": slim}, "haplotag succeeded", predicted)
            return
        ctx.fail(f"haplotag exits with {rc} and writes no complete output (model expects {predicted or 'a normal run'}): {msg[-300:]}", slim,
                 key=rkey if multi else "cli-error")
        return
    _, outrecs = load_bam(out)
    # file order of the input = order of case['alns'] after write_bam's stable sort: recover the truth per record
    names = list(case["contigs"])
    srt = sorted(case["alns"], key=lambda r: (names.index(r["chrom"]) if r.get("chrom") in names else 10**9, r.get("start", 0) if r.get("chrom") in names else 0))
    truth_of = srt
    assert len(srt) == len(inrecs) and all(a["name"] == b["name"] for a, b in zip(srt, inrecs)), "harness: input order"

    regions = norm_regions(case)
    if regions is None:
        exp_idx = list(range(len(inrecs)))
        chrom_of = [c for c in case["contigs"]]
    else:
        exp_idx = [k for k, r in enumerate(inrecs) if r["chrom"] in regions and any(overlaps(r, reg) for reg in regions[r["chrom"]])]
        chrom_of = list(regions)
    write_missing = True
    if o.get("skip_missing_contigs"):
        # the property: every input alignment is in the output.  As the code is, the alignments of a contig that the VCF
        # does not know are left out (finding F70; fixes/F70.patch writes them without HP/PC/PS)
        kept = [k for k in exp_idx if inrecs[k]["chrom"] is None or inrecs[k]["chrom"] in case["vcf_contigs"]]
        if len(kept) != len(exp_idx) and compare_streams([inrecs[k] for k in kept], outrecs) is None:
            lost = [inrecs[k] for k in exp_idx if k not in set(kept)]
            ctx.fail(f"--skip-missing-contigs: {len(lost)} input alignment(s) on contig(s) {sorted({r['chrom'] for r in lost})} (unknown to the VCF) are missing "
                     f"from the output BAM, e.g. {lost[0]['name']} at {lost[0]['chrom']}:{lost[0]['start']}; {len(outrecs)} of {len(exp_idx)} alignments written",
                     slim, key="skip-missing-contigs-drops")
            exp_idx = kept
            write_missing = False
    expected = [inrecs[k] for k in exp_idx]
    ctx.dist("n_expected", len(expected) // 20 * 20)

    # ---- conservation
    diff = compare_streams(expected, outrecs)
    if diff:
        ctx.fail(("with --regions " + " ".join(o["regions"]) + ": " if regions is not None else "") + "output BAM is not the input alignment list: " + diff,
                 slim, key=rkey)
        return
    if regions is not None:
        # ---- the Lean model of the repaired region handling (Model/C10Regions.lean; conservation_regions_order)
        from harness.gen.c10_gen import parse_region
        from whatshap.cli.haplotag import normalize_user_regions
        contigs = list(case["contigs"])
        user = [[contigs.index(c), s, e] for c, s, e in (parse_region(r) for r in o["regions"])]
        per = [[] for _ in contigs]
        for k, r in enumerate(inrecs):
            if r["chrom"] in contigs:
                per[contigs.index(r["chrom"])].append(k)
        ans = ctx.model.ask("c10.regions", user=user, contigs=[[[inrecs[k]["start"], inrecs[k]["end"]] for k in ks] for ks in per])
        real = normalize_user_regions(o["regions"], contigs)
        impl_norm = [[[s, e] for s, e in real[c]] for c in contigs if c in real]
        if impl_norm != ans["norm"]:
            ctx.disagree("c10.regions/normalize_user_regions", slim, impl_norm, ans["norm"])
        for name in ("written", "once"):
            mod_idx = [per[i][k] for i, k in ans[name]]
            if not write_missing:
                mod_idx = [k for k in mod_idx if inrecs[k]["chrom"] in case["vcf_contigs"]]
            if mod_idx != exp_idx:       # expected == outrecs was established above
                ctx.disagree("c10.regions/" + name, slim, exp_idx, mod_idx)
    # ---- the haplotag list as written
    lines = [l.rstrip("\n").split("\t") for l in open(lst)][1:]
    used = samples_in_use(case)
    det_cache = {}
    coll_names, coll_bx, shared_names = find_collisions(case, inrecs)
    ctx.dist("names_in_two_samples", min(len(coll_names), 3) if len(coll_names) < 10 else "10+"); ctx.dist("barcodes_in_two_samples", min(len(coll_bx), 3))
    ctx.dist("read_names", case.get("name_scheme", "unique in the BAM"))
    # a read = (sample, name) / a cloud = (sample, barcode) unless read groups are ignored: the keys of the Lean requests
    irg_ = bool(o.get("ignore_read_groups"))
    qz = lambda sm, x: x if (x is None or irg_) else f"{'~none~' if sm is None else sm}{SEP}{x}"
    qname = lambda r: qz(aln_sample(case, r), r["name"])
    qbx = lambda r: qz(aln_sample(case, r), r["bx"])
    model_run_check(ctx, case, files, inrecs, outrecs, exp_idx, lines, regions, used, write_missing, det_cache)
    # unplaced tail untouched (also the three tags)
    for e, r in zip(expected, outrecs):
        if e["chrom"] is None and e["three"] != r["three"]:
            ctx.fail(f"unplaced unmapped read {e['name']} was modified", slim, key="conservation")

    # ---- decisions
    nontrivial = {"tagged": 0, "untagged_eligible": 0, "multi": 0}
    final = {}
    order_dependent = bool(o.get("ignore_read_groups")) and len(used) > 1
    if order_dependent:
        ctx.observe("--ignore-read-groups with several --sample: every sample works on all reads, the result depends on the order of a "
                    "Python set of sample names; only conservation, the list and the whole-run model (any order) are checked")
        nontrivial["tagged"] = sum(1 for r in outrecs if r["tagvals"][0] is not None)
        nontrivial["untagged_eligible"] = 1
    for swapped in (() if order_dependent else (False, True)):
        if swapped:
            if "swap" not in case:
                break
            vcf2 = c10_gen.write_case_vcf(case, os.path.join(d, "swapped.vcf"), swap=case["swap"])
            out2 = os.path.join(d, "out2.bam")
            rc2, _, se2, _ = sim.whatshap(c10_gen.haplotag_args(case, fa, vcf2, bam, out2), ctx.overlay)
            if rc2 != 0:
                ctx.fail("haplotag fails on the VCF with exchanged haplotypes: " + (se2.strip().splitlines() or ["?"])[-1][:300], slim, key="swap-symmetry")
                return
            _, outrecs2 = load_bam(out2)
            if compare_streams(expected, outrecs2):
                ctx.fail("conservation fails on the VCF with exchanged haplotypes: " + compare_streams(expected, outrecs2), slim, key=rkey)
                return
            cur = outrecs2
        else:
            cur = outrecs
        swap = case["swap"] if swapped else None
        ambiguous_names, ambiguous_bx = set(), set()
        for chrom in chrom_of:
            if chrom not in case["vcf_contigs"]:
                continue
            regs = regions[chrom] if regions is not None else None
            idx_exp = [k for k, r in enumerate(expected) if r["chrom"] == chrom]
            if not idx_exp:
                continue
            alns_req = [[qname(expected[k]), bool(expected[k]["flag"] & 4), bool(expected[k]["flag"] & 256), bool(expected[k]["flag"] & 2048),
                         expected[k]["start"], qbx(expected[k])] for k in idx_exp]
            reqs = {}
            reads_by_name = {m: {} for m in MODES}
            for mode in MODES:
                samples_req = []
                for s in used:
                    idxs = sample_variants(case, s, chrom, regs)
                    info = phase_info(case, s, chrom, idxs, swap)
                    if mode == "detected":
                        reads = detected_reads(case, files, s, chrom, idxs, regs, cache=det_cache, ctx=ctx) if not swapped else final[("reads", "detected", chrom, s)]
                        final[("reads", "detected", chrom, s)] = reads
                    else:
                        order, groups, bx = truth_groups(case, inrecs, truth_of, s, chrom, idxs, regs, per_region=(mode == "truth_per_region"))
                        ans = ctx.model.ask("c10.group", threshold=100000, repaired=(mode != "truth_orig"), groups=[groups[n] for n in order])
                        got = {n: a for n, a in zip(order, ans) if a is not None}
                        det_order = [r[0] for r in final[("reads", "detected", chrom, s)]]
                        names_sorted = [n for n in det_order if n in got] + sorted((n for n in got if n not in det_order), key=lambda n: (got[n][1][0][0] if got[n][1] else 0, n))
                        reads = [[n, got[n][0], bx[n], got[n][1]] for n in names_sorted]
                    for r in reads:
                        reads_by_name[mode][qz(s, r[0])] = (s, info, r[3])
                    samples_req.append({"phase": info, "reads": [[qz(s, n_), st_, qz(s, bx_), rvs_] for n_, st_, bx_, rvs_ in reads]})
                reqs[mode] = dict(op="c10.chrom", ploidy=case["ploidy"], cutoff=(o.get("linked_read_distance_cutoff") if o.get("linked_read_distance_cutoff") is not None else 50000),
                                  ignoreLinked=bool(o.get("ignore_linked_read")), tagSupp=bool(o.get("tag_supplementary")), samples=samples_req, alns=alns_req)
            ans = ctx.model.ask_many([reqs[m] for m in MODES])
            alt_tags = {m: ans[MODES.index(m)].get("tags") for m, _, _ in ALTERNATIVES}
            adm_by_name, adm_by_bx = {}, {}
            bx_of = {qname(expected[k]): qbx(expected[k]) for k in idx_exp}
            for a in ans:
                for names_, adm in a.get("clouds", []):
                    if len(names_) > 1 and len(adm) > 1:
                        ambiguous_names.update(names_)
                        tg = {((d[1] + 1, d[2], d[3]) if isinstance(d, list) and d[0] == "tagged" else (None, None, None)) for d in adm}
                        for n_ in names_:
                            adm_by_name.setdefault(n_, set()).update(tg)
                            if bx_of.get(n_) is not None:
                                adm_by_bx.setdefault(bx_of[n_], {(None, None, None)}).update((t[0], None, t[2]) for t in tg)
            linked_on = o.get("linked_read_distance_cutoff") is not None and not o.get("ignore_linked_read")
            # ---- property predicate, independent of the model
            for k in idx_exp:
                rec = cur[k]
                hp, pc, ps = rec["tagvals"]
                eligible = not (rec["flag"] & 4 or rec["flag"] & 256 or ((rec["flag"] & 2048) and not o.get("tag_supplementary")))
                if hp is None:
                    if ps is not None or pc is not None:
                        ctx.fail(f"{rec['name']}: PS/PC without HP: {rec['tagvals']}", slim, key="tags-inconsistent")
                    if eligible and not swapped:
                        nontrivial["untagged_eligible"] += 1
                    continue
                if not swapped:
                    nontrivial["tagged"] += 1
                if not eligible:
                    ctx.fail(f"{rec['name']} flag {rec['flag']} must not be tagged but carries HP {hp}", slim, key="ineligible-tagged")
                    continue
                if pc is None:
                    if linked_on and rec["bx"] is not None:
                        continue            # tagged through its read cloud (no PC): covered by the correspondence
                    ctx.fail(f"{rec['name']}: HP without PC", slim, key="tags-inconsistent")
                    continue
                if linked_on and rec["bx"] is not None:
                    continue                # cloud scores: covered by the correspondence (model = theorem best_agreeing on the cloud)
                for mode in ("detected", "truth"):
                    ent = reads_by_name[mode].get(qname(rec))
                    if ent is None:
                        msg = "no read with phased heterozygous variants"
                    else:
                        s, info, rvs = ent
                        if not swapped and len(agree_scores(case["ploidy"], info, rvs)) > 1 and mode == "detected":
                            nontrivial["multi"] += 1
                        msg = check_rule(case["ploidy"], info, rvs, hp, pc, ps)
                    if msg:
                        key = "best-agreeing" if mode == "detected" else "truth-alleles"
                        if mode == "truth":
                            for m_, k_, _ in ALTERNATIVES:
                                ent0 = reads_by_name[m_].get(qname(rec))
                                if ent0 is not None and check_rule(case["ploidy"], ent0[1], ent0[2], hp, pc, ps) is None:
                                    key = k_
                                    break
                        ctx.fail(f"{'exchanged VCF, ' if swapped else ''}{chrom} {rec['name']} tagged HP={hp} PC={pc} PS={ps} but ({mode} alleles) {msg}",
                                 slim, key=key)
            # ---- reads whose name occurs in several samples against the generator's truth (Python only)
            shared_name_reads_check(ctx, case, slim, chrom, regs, used, inrecs, exp_idx, idx_exp, cur, truth_of, swap, shared_names)
            # ---- boundary reads against the generator's truth (Python only)
            boundary_reads_check(ctx, case, slim, chrom, regs, used, inrecs, exp_idx, idx_exp, cur, truth_of, swap)
            overlapping_mates_check(ctx, case, slim, chrom, regs, used, inrecs, exp_idx, idx_exp, cur, truth_of, swap)
            # ---- correspondence with the Lean model
            for mode, a in zip(MODES[:2], ans):
                if "error" in a and a.get("tags") is None:
                    ctx.disagree("c10.chrom", {"case": slim, "request": reqs[mode]}, "implementation succeeded", a)
                    continue
                for pos_, (k, mt) in enumerate(zip(idx_exp, a["tags"])):
                    rec = cur[k]
                    impl = list(rec["tagvals"])
                    if impl == mt:
                        continue
                    if tuple(impl) in adm_by_name.get(qname(rec), ()) or (
                            linked_on and qname(rec) not in adm_by_name and tuple(impl) in adm_by_bx.get(qbx(rec), ())):
                        ctx.observe("read cloud with tied phase sets: the reported set depends on Python set order; implementation's "
                                    "choice is one of the model's admissible decisions")
                        continue
                    what = (f"{'exchanged VCF, ' if swapped else ''}{chrom} {rec['name']} flag {rec['flag']}: haplotag wrote HP/PC/PS {impl}, "
                            f"model on {mode} alleles {mt}")
                    if mode == "detected":
                        ctx.disagree("c10.chrom/detected-alleles", {"case": slim, "alignment": rec["name"], "chrom": chrom, "swapped": swapped}, impl, mt)
                    else:
                        # the alleles the generator put into the read give another decision than the ones whatshap saw
                        det = reads_by_name["detected"].get(qname(rec)); tru = reads_by_name["truth"].get(qname(rec))
                        alt = next(((k_, w_) for m_, k_, w_ in ALTERNATIVES if alt_tags[m_] is not None and alt_tags[m_][pos_] == impl), None)
                        if alt:
                            ctx.fail(alt[1] + ": " + what + f"; read as assembled by whatshap {det[2] if det else None}, "
                                     f"alleles of the whole read {tru[2] if tru else None}", slim, key=alt[0])
                        else:
                            ctx.fail("tag does not follow from the alleles the read carries (ground truth): " + what +
                                     f"; detected read {det[2] if det else None}, true read {tru[2] if tru else None}", slim, key="truth-alleles")
        final[("amb", swapped)] = ambiguous_names

    # ---- symmetry
    if "swap" in case and not order_dependent:
        sw = case["swap"]
        amb = final.get(("amb", False), set()) | final.get(("amb", True), set())
        ids = rg_ids(case, sw["sample"])
        tau = {sw["i"] + 1: sw["j"] + 1, sw["j"] + 1: sw["i"] + 1}
        moved = 0
        linked_on = o.get("linked_read_distance_cutoff") is not None and not o.get("ignore_linked_read")
        amb_bx = {qbx(e) for e in expected if qname(e) in amb and e["bx"] is not None} if linked_on else set()
        for e, r1, r2 in zip(expected, outrecs, outrecs2):
            if qname(e) in amb or (e["bx"] is not None and qbx(e) in amb_bx):
                ctx.observe("read cloud with tied phase sets: result depends on Python set order (skipped in the symmetry check)")
                continue
            hp, pc, ps = r1["tagvals"]
            in_set = (hp is not None and ps == sw["ps"] and e["chrom"] == sw["chrom"] and sw["sample"] in used
                      and (o.get("ignore_read_groups") or e["rg"] in ids))
            exp = (tau.get(hp, hp), pc, ps) if in_set else (hp, pc, ps)
            if in_set and tau.get(hp, hp) != hp:
                moved += 1
            if tuple(r2["tagvals"]) != exp:
                ctx.fail(f"exchanging haplotypes {sw['i'] + 1} and {sw['j'] + 1} of phase set {sw['ps']} ({sw['sample']}, {sw['chrom']}): "
                         f"{e['name']} had HP/PC/PS {r1['tagvals']}, now {r2['tagvals']}, expected {exp}", slim, key="swap-symmetry")
        ctx.dist("swap_moved_reads", min(moved, 10))

    # ---- haplotag list
    prim = [r for r in outrecs if r["chrom"] is not None and not (r["flag"] & 256 or r["flag"] & 2048)]
    exp_lines = [[r["name"], ("none" if r["tagvals"][0] is None else f"H{r['tagvals'][0]}"), ("none" if r["tagvals"][2] is None else str(r["tagvals"][2])), r["chrom"]]
                 for r in prim]
    if lines != exp_lines:
        bad = [(a, b) for a, b in zip(lines, exp_lines) if a != b]
        if len(lines) == len(exp_lines) and all(a[1] == "none" and b[1] == "none" and a[0] == b[0] and a[3] == b[3] for a, b in bad):
            # F18: the loop variable of the read-cloud search leaks into the list
            ctx.fail(f"--output-haplotag-list names a phase set for an untagged read: {bad[0][0]} (alignment has no PS tag)", slim,
                     key="haplotag-list-phaseset-of-untagged")
        else:
            ctx.fail(f"--output-haplotag-list disagrees with the tags written ({len(lines)} lines, {len(exp_lines)} expected; first: "
                     f"{bad[0] if bad else None})", slim, key="haplotag-list")
    ctx.validated()
    if nontrivial["tagged"] and (nontrivial["untagged_eligible"] or nontrivial["multi"]):
        ctx.nontrivial(json.dumps(case, sort_keys=True)[:20000])
    ctx.dist("tagged_alignments", min(nontrivial["tagged"] // 10 * 10, 100)); ctx.dist("reads_in_two_sets", min(nontrivial["multi"], 10))
    if len(ctx.samples) < 2:
        ctx.sample({"ploidy": case["ploidy"], "opts": o, "n_alignments": len(inrecs), "tagged": nontrivial["tagged"],
                    "first_tagged": next(([r["name"], list(r["tagvals"])] for r in outrecs if r["tagvals"][0] is not None), None)})


def run(ctx):
    from harness.gen import c10_gen
    d = os.path.join(ctx.workdir(), "c10")
    try:
        cases = [c for _, c in ctx.corpus()]
        if ctx.replay:
            c = json.load(open(ctx.replay))["case"]
            cases = [c.get("case", c)]
        for c in cases:
            run_case(ctx, c, d)
        if ctx.replay:
            return
        n = (30 if ctx.quick else 400) * ctx.scale
        for i in range(n):
            force = {}
            if i % 6 == 1:
                force["ploidy"] = 3 + (i // 6) % 2
            if i % 5 == 3:
                force["no_reference"] = True       # base qualities are allele qualities only without a reference (seed C10-h)
            if i % 4 == 2:
                force["name_scheme"] = "per-sample" if i % 8 == 2 else "run-prefixed"      # only takes effect with reads of several samples
            case = c10_gen.gen_case(ctx.rng, size=1.0 if ctx.quick else ctx.rng.choice([1.0, 1.0, 2.0]), force=force)
            run_case(ctx, case, d)
    finally:
        shutil.rmtree(ctx.workdir(), ignore_errors=True)

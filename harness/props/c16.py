"""C16 — results depend on the input only: not on hash seed, thread count or repetition.

Level "other".  Theorems (lean/WhVerif/Props/C16.lean) cover the order-independence arguments that are logic
(the read comparator is a total order whose sort is a function of the read set; block results re-sorted by block
id; sorted(set) independent of the enumeration).  The part that can find failures is the exploration below:
every subcommand that writes a VCF/BAM/TSV is run on the same generated input under several PYTHONHASHSEED
values, thread counts and twice, and the outputs are compared record for record (command-line header / @PG CL
removed; header definition lines compared as a multiset — their order is F6, an observation).
"""
import collections, contextlib, io, itertools, json, os, shutil

import pysam

from harness.gen import sim, c15_poly, c16_inputs

LEVEL = "other"
EXPLANATION = ("No executable model can exhibit CPython's hash randomisation, multiprocessing scheduling or htslib's "
               "compression threads, so the property itself is explored, not proved: each writing subcommand is re-run "
               "on identical generated inputs under PYTHONHASHSEED in {0,1,2,random,...}, --threads 1..4 (polyphase), "
               "--output-threads 1..4 (haplotag) and repeated, and all outputs must be record-for-record identical. "
               "Lean proves only the logical core: the places where the code re-establishes an order (ReadSet::sort's "
               "comparator, sort by block id, sorted(set)) yield a result that is a function of the multiset. Not "
               "covered: std::hash<std::string> determinism across runs (libstdc++ guarantees it), the OS scheduler "
               "beyond the thread counts tried, the union-find order-independence (C18's theorem, not re-proved here).")
RULE = ("one evaluation = one (subcommand, input, variant) run compared with the baseline run of the same subcommand on "
        "the same input; variant = hash seed / thread count / repetition. Non-trivial: the compared output holds at "
        "least one data record and the variant differs from the baseline in seed, threads or is a repetition; "
        "distinct = distinct (subcommand, variant, input digest). In-process: ReadSet.sort under permuted insertion "
        "orders (non-trivial: >= 2 reads share a first position); readselection after ReadSet.sort under permuted insertion "
        "orders (non-trivial: two reads share a first position and some read is rejected); phase/genotype on a BAM whose records "
        "of one start position are permuted")
MANIFEST = dict(
    category="other",
    text="partial Lean 4 theorems (read comparator is a total order and ReadSet::sort a function of the read set; "
         "polyphase block results re-sorted by block id and sorted(set) are independent of arrival/enumeration order) "
         "; read selection after ReadSet::sort returns the same selection, for every resolution of its priority-queue ties, "
         "whatever order the reads arrive in (selection_outcomes_order_independent; composed with the C07 model of "
         "readselection), a tie witness and uniqueness of the outcome when no tie is decisive "
         "plus schedule/seed exploration: phase, phase --ped --use-ped-samples, genotype, polyphase, haplotag, unphase, "
         "stats, compare, split, haplotagphase re-run on identical generated inputs under different PYTHONHASHSEED "
         "values, --threads / --output-threads 1..4 and repeated; outputs compared record for record",
    design_ref="DESIGN.md §5 C16",
    note="NOT a proof of the property: hash randomisation, worker scheduling and compression threads cannot be exhibited "
         "by the model; evidence is the exploration (bounded by seeds/thread counts/inputs tried). F6 (order of added "
         "##INFO header lines depends on the hash seed) is recorded as an observation: header definition lines are "
         "compared as a multiset because the property speaks of records",
    technique="Lean 4 order-independence lemmas + differential re-execution under varied seeds/threads",
)
ASSUMPTIONS = ["std::hash<std::string> is deterministic across processes (libstdc++)",
               "the recorded command line (##commandline, @PG CL) is excluded as the property states; output paths differ "
               "between runs and appear only there",
               "header definition lines are compared as a multiset (order = F6, observation)",
               "BAM record-order runs: read names are unique (twin alignments get their own names); a different ORDER OF INPUT FILES "
               "changes the source ids, which are part of ReadSet::sort's key: differences there are reported as observations",
               "c16.select: std::hash of (name, source id) is replaced by the rank the implementation's own sort assigned"]

K_F47 = "F47-compare-multiway-sample-column-set-order"

SEEDS_QUICK = ["0", "1", "random", "0"]            # last one = repetition of the baseline configuration
SEEDS_THOROUGH = ["0", "1", "2", "3", "7", "42", "1000", "4294967295", "random", "random", "0", "1"]


# ------------------------------------------------------------------------------------------------
# canonical views of outputs
# ------------------------------------------------------------------------------------------------

def vcf_view(text):
    hdr, recs = [], []
    for line in text.splitlines():
        if line.startswith("##commandline="):
            continue
        (hdr if line.startswith("#") else recs).append(line)
    return hdr, recs


def bam_view(path):
    with pysam.AlignmentFile(path, check_sq=False) as f:
        hdr = []
        for line in str(f.header).splitlines():
            if line.startswith("@PG"):
                line = "\t".join(x for x in line.split("\t") if not x.startswith("CL:"))
            hdr.append(line)
        recs = [r.to_string() for r in f.fetch(until_eof=True)]
    return hdr, recs


def text_view(text):
    return [], text.splitlines()


def load(path, kind):
    if kind == "bam":
        return bam_view(path)
    with open(path) as f:
        t = f.read()
    return vcf_view(t) if kind == "vcf" else text_view(t)


def first_diff(a, b):
    for i, (x, y) in enumerate(zip(a, b)):
        if x != y:
            return f"record {i}: {x[:160]!r} vs {y[:160]!r}"
    return f"{len(a)} vs {len(b)} records"


# ------------------------------------------------------------------------------------------------
# the subcommands
# ------------------------------------------------------------------------------------------------

def prepare_inputs(ctx, case, d):
    """writes the input files of a case into d; returns a dict of paths"""
    rngless = case["input"]
    P = {}
    fam = c15_poly.PolyScenario.from_case(rngless["family"])
    fd = os.path.join(d, "fam")
    P["fa"], P["bam"], P["vcf"] = fam.write(fd, records=fam.vcf_records(info=c16_inputs.info_fn(fam)))
    P["ped"] = os.path.join(fd, "fam.ped")
    with open(P["ped"], "w") as f:
        f.write(c16_inputs.ped_text())
    poly = c15_poly.PolyScenario.from_case(rngless["poly"])
    P["pfa"], P["pbam"], P["pvcf"] = poly.write(os.path.join(d, "poly"))
    P["ploidy"] = list(poly.ploidy.values())[0]
    # the same polyploid data with pre-phased stretches (true haplotype order, PS) for the FIRST sample only: with
    # --use-prephasing one sample has phased blocks and the other has none (per-sample state must not leak)
    precs = poly.vcf_records()
    idx = 0
    s0 = poly.samples[0]
    for name in poly.contigs:
        nv = len(poly.variants[name])
        for i in range(nv):
            r = precs[idx]; idx += 1
            r["format"] = ["GT", "PS"]
            for c in r["calls"]:
                c["PS"] = "."
            col = [h[i] for h in poly.haps[f"{s0}|{name}"]]
            first_contig = name == list(poly.contigs)[0]
            block = 0 if first_contig else i // 3     # first contig: ONE stretch across the coverage gap
            if (first_contig or block % 2 == 0) and len(set(col)) > 1 and "." not in r["calls"][0]["GT"]:
                r["calls"][0] = {"GT": "|".join(map(str, col)), "PS": poly.variants[name][3 * block]["pos"] + 1}
    P["pvcf_pre"] = os.path.join(d, "poly", "in_pre.vcf")
    sim.write_vcf(P["pvcf_pre"], poly.contigs, poly.all_samples(), precs,
                  fmt_defs={"PS": '##FORMAT=<ID=PS,Number=1,Type=Integer,Description="Phase set">'})
    # derived inputs, produced once with the baseline configuration
    env0 = {"PYTHONHASHSEED": "0"}

    def must(args, stdout_to=None):
        rc, out, err, _ = sim.whatshap(args, ctx.overlay, env_extra=env0)
        if rc != 0:
            raise RuntimeError(f"preparing inputs: whatshap {args[0]} failed: {err[-400:]}")
        if stdout_to:
            with open(stdout_to, "w") as f:
                f.write(out)
    P["phasedA"] = os.path.join(fd, "phasedA.vcf")
    P["phasedB"] = os.path.join(fd, "phasedB.vcf")
    must(["phase", P["vcf"], P["bam"], "-o", P["phasedA"], "--reference", P["fa"]])
    must(["phase", "--ped", P["ped"], "--use-ped-samples", P["vcf"], P["bam"], "-o", P["phasedB"], "--reference", P["fa"]])
    P["phasedA_gz"] = P["phasedA"] + ".gz"
    pysam.tabix_compress(P["phasedA"], P["phasedA_gz"], force=True)
    pysam.tabix_index(P["phasedA_gz"], preset="vcf", force=True)
    # three single-sample VCFs with different sample names (for compare --ignore-sample-name)
    P["singles"] = []
    lines = open(P["phasedA"]).read().splitlines()
    hdr = next(l for l in lines if l.startswith("#CHROM")).split("\t")
    for si in range(min(3, len(hdr) - 9)):
        path = os.path.join(fd, f"single{si}.vcf")
        with open(path, "w") as f:
            for l in lines:
                if l.startswith("##"):
                    f.write(l + "\n")
                else:
                    c = l.split("\t")
                    f.write("\t".join(c[:9] + [c[9 + si]]) + "\n")
        P["singles"].append(path)
    P["tagged"] = os.path.join(fd, "tagged.bam")
    P["taglist"] = os.path.join(fd, "tags.tsv")
    must(["haplotag", P["phasedA_gz"], P["bam"], "-o", P["tagged"], "--reference", P["fa"], "--output-haplotag-list",
          P["taglist"]])
    pysam.index(P["tagged"])
    return P


def subcommands(P, quick):
    """name -> (args builder(outdir, threads) -> (args, {label: (path|'<stdout>', kind)}), thread option values)"""
    def phase(o, t):
        return (["phase", P["vcf"], P["bam"], "-o", o + "/out.vcf", "--reference", P["fa"], "--output-read-list",
                 o + "/reads.tsv"], {"vcf": (o + "/out.vcf", "vcf"), "readlist": (o + "/reads.tsv", "text")})

    def phase_ped(o, t):
        return (["phase", "--ped", P["ped"], "--use-ped-samples", P["vcf"], P["bam"], "-o", o + "/out.vcf",
                 "--reference", P["fa"], "--recombination-list", o + "/recomb.tsv"],
                {"vcf": (o + "/out.vcf", "vcf"), "recomb": (o + "/recomb.tsv", "text")})

    def phase_ped_lists(o, t):
        # every auxiliary list at once, genotypes distrusted (so that genotype changes exist)
        return (["phase", "--ped", P["ped"], P["vcf"], P["bam"], "-o", o + "/out.vcf", "--reference", P["fa"],
                 "--distrust-genotypes", "--recombination-list", o + "/recomb.tsv", "--changed-genotype-list", o + "/gtchanges.tsv",
                 "--output-read-list", o + "/reads.tsv"],
                {"vcf": (o + "/out.vcf", "vcf"), "recomb": (o + "/recomb.tsv", "text"), "gtchanges": (o + "/gtchanges.tsv", "text"),
                 "readlist": (o + "/reads.tsv", "text")})

    def genotype(o, t):
        return (["genotype", P["vcf"], P["bam"], "-o", o + "/out.vcf", "--reference", P["fa"]],
                {"vcf": (o + "/out.vcf", "vcf")})

    def genotype_ped(o, t):
        return (["genotype", "--ped", P["ped"], "--use-ped-samples", "--chromosome", "chr1", P["vcf"], P["bam"], "-o",
                 o + "/out.vcf", "--reference", P["fa"]], {"vcf": (o + "/out.vcf", "vcf")})

    def polyphase(o, t):
        return (["polyphase", P["pvcf"], P["pbam"], "--ploidy", P["ploidy"], "-o", o + "/out.vcf", "--reference", P["pfa"],
                 "--threads", t], {"vcf": (o + "/out.vcf", "vcf")})

    def polyphase_pre(o, t):
        return (["polyphase", P["pvcf_pre"], P["pbam"], "--ploidy", P["ploidy"], "-o", o + "/out.vcf", "--reference",
                 P["pfa"], "--use-prephasing", "-B", "0", "--threads", t], {"vcf": (o + "/out.vcf", "vcf")})

    def haplotag(o, t):
        return (["haplotag", P["phasedA_gz"], P["bam"], "-o", o + "/out.bam", "--reference", P["fa"],
                 "--output-haplotag-list", o + "/tags.tsv", "--output-threads", t],
                {"bam": (o + "/out.bam", "bam"), "taglist": (o + "/tags.tsv", "text")})

    def haplotag_regions(o, t):
        # several --regions values: the order in which regions/chromosomes are processed must not depend on the
        # interpreter's hash seed (regions are given in BAM order and do not overlap)
        import pysam as _pysam
        with _pysam.AlignmentFile(P["bam"]) as _b:
            refs = list(_b.references)
        regs = []
        for r in refs:
            regs += ["--regions", r]
        return (["haplotag", P["phasedA_gz"], P["bam"], "-o", o + "/out.bam", "--reference", P["fa"],
                 "--output-haplotag-list", o + "/tags.tsv"] + regs,
                {"bam": (o + "/out.bam", "bam"), "taglist": (o + "/tags.tsv", "text")})

    def unphase(o, t):
        return (["unphase", P["phasedA"]], {"vcf": ("<stdout>", "vcf")})

    def stats(o, t):
        return (["stats", P["phasedA"], "--tsv", o + "/s.tsv", "--block-list", o + "/blocks.tsv", "--gtf", o + "/s.gtf"],
                {"tsv": (o + "/s.tsv", "text"), "blocks": (o + "/blocks.tsv", "text"), "gtf": (o + "/s.gtf", "text"),
                 "stdout": ("<stdout>", "text")})

    def compare(o, t):
        return (["compare", "--tsv-pairwise", o + "/p.tsv", "--tsv-multiway", o + "/m.tsv", "--switch-error-bed",
                 o + "/e.bed", "--longest-block-tsv", o + "/lb.tsv", "--names", "a,b,c", "--sample",
                 c16_inputs.NAMES[0][2], P["phasedA"], P["phasedB"], P["phasedA"]],
                {"pairwise": (o + "/p.tsv", "text"), "multiway": (o + "/m.tsv", "text"), "bed": (o + "/e.bed", "text"),
                 "longest": (o + "/lb.tsv", "text"), "stdout": ("<stdout>", "text")})

    def compare_ignore(o, t):
        return (["compare", "--ignore-sample-name", "--tsv-pairwise", o + "/p.tsv", "--tsv-multiway", o + "/m.tsv",
                 "--names", "a,b,c"] + P["singles"],
                {"pairwise": (o + "/p.tsv", "text"), "multiway": (o + "/m.tsv", "text"), "stdout": ("<stdout>", "text")})

    def split(o, t):
        return (["split", "--output-h1", o + "/h1.bam", "--output-h2", o + "/h2.bam", "--output-untagged", o + "/u.bam",
                 "--read-lengths-histogram", o + "/hist.tsv", P["bam"], P["taglist"]],
                {"h1": (o + "/h1.bam", "bam"), "h2": (o + "/h2.bam", "bam"), "untagged": (o + "/u.bam", "bam"),
                 "hist": (o + "/hist.tsv", "text")})

    def haplotagphase(o, t):
        return (["haplotagphase", "-o", o + "/out.vcf", "--reference", P["fa"], P["phasedA_gz"], P["tagged"]],
                {"vcf": (o + "/out.vcf", "vcf")})

    subs = collections.OrderedDict()
    subs["phase"] = (phase, [None])
    subs["phase-ped"] = (phase_ped, [None])
    subs["phase-ped-lists"] = (phase_ped_lists, [None])
    subs["genotype"] = (genotype, [None])
    if not quick:
        subs["genotype-ped"] = (genotype_ped, [None])
    subs["polyphase"] = (polyphase, [1, 2, 3, 4])
    subs["polyphase-prephasing"] = (polyphase_pre, [1, 2])
    subs["haplotag"] = (haplotag, [1, 2, 3, 4])
    subs["haplotag-regions"] = (haplotag_regions, [None])
    subs["unphase"] = (unphase, [None])
    subs["stats"] = (stats, [None])
    subs["compare"] = (compare, [None])
    if len(P.get("singles", [])) == 3:
        subs["compare-ignore-names"] = (compare_ignore, [None])
    subs["split"] = (split, [None])
    subs["haplotagphase"] = (haplotagphase, [None])
    return subs


def run_variant(ctx, builder, d, tag, seed, threads, keep=False):
    o = os.path.join(d, "run_" + tag)
    os.makedirs(o, exist_ok=True)
    args, outs = builder(o, threads if threads is not None else 1)
    rc, so, se, _ = sim.whatshap(args, ctx.overlay, env_extra={"PYTHONHASHSEED": seed}, timeout=900)
    views = {}
    if rc != 0:
        return rc, (se.strip().splitlines() or [""])[-1][:300], views
    for label, (path, kind) in outs.items():
        if path == "<stdout>":
            views[label] = vcf_view(so) if kind == "vcf" else text_view(so)
        elif os.path.exists(path):
            views[label] = load(path, kind)
        else:
            views[label] = None
    if not keep:
        shutil.rmtree(o, ignore_errors=True)
    return rc, "", views


def explore(ctx, case, only=None):
    d = os.path.join(ctx.workdir(), "c16")
    shutil.rmtree(d, ignore_errors=True)
    os.makedirs(d)
    try:
        P = prepare_inputs(ctx, case, d)
        seeds = SEEDS_QUICK if ctx.quick else SEEDS_THOROUGH
        digest = case.get("digest", "")
        if not only or "bam-order" in only:
            bam_order_check(ctx, case, P, d)
        for name, (builder, thread_opts) in subcommands(P, ctx.quick).items():
            if only and name not in only:
                continue
            variants = []
            for i, s in enumerate(seeds):
                variants.append((s, thread_opts[i % len(thread_opts)]))
            if len(thread_opts) > 1:
                # every thread count at the baseline seed as well
                variants += [("0", t) for t in thread_opts[1:]]
            # literal repetition: the same command once more with the same output paths (the files of the first run exist)
            variants.insert(1, (variants[0][0], variants[0][1]))
            base = None
            for vi, (seed, threads) in enumerate(variants):
                tag = f"{name}_{0 if vi == 1 else vi}"
                rc, err, views = run_variant(ctx, builder, d, tag, seed, threads, keep=(vi == 0))
                vdesc = f"PYTHONHASHSEED={seed}" + (f" threads={threads}" if threads is not None else "")
                if base is None:
                    if rc != 0:
                        ctx.observe(f"{name}: baseline run failed: {err}")
                        break
                    base = (vdesc, views)
                    continue
                ctx.evaluated()
                ctx.dist("subcommand", name)
                ctx.dist("variant", vdesc if seed != "random" else vdesc)
                sub_case = dict(case, only=[name])
                if rc != 0:
                    ctx.fail(f"{name}: run under {vdesc} failed ({err}) while {base[0]} succeeded", sub_case,
                             key=f"{name}:crash-under-variant")
                    continue
                nontrivial = False
                for label, bv in base[1].items():
                    vv = views.get(label)
                    if bv is None or vv is None:
                        if bv != vv:
                            ctx.fail(f"{name}: output {label} written under {base[0]} xor {vdesc}", sub_case,
                                     key=f"{name}:{label}:missing")
                        continue
                    if bv[1] != vv[1]:
                        key = f"{name}:{label}:records"
                        if name == "compare-ignore-names" and label == "multiway" and len(bv[1]) == len(vv[1]) and all(
                                x.split("\t")[1:] == y.split("\t")[1:] for x, y in zip(bv[1], vv[1])):
                            key = K_F47      # only the sample column differs: "_".join(set(sample_names))
                        ctx.fail(f"{name}: {label} records differ between {base[0]} and {vdesc}: {first_diff(bv[1], vv[1])}",
                                 sub_case, key=key)
                    elif bv[0] != vv[0]:
                        if collections.Counter(bv[0]) == collections.Counter(vv[0]):
                            ctx.observe(f"{name}: order of header lines of {label} depends on the run (F6); records identical")
                        else:
                            ctx.fail(f"{name}: {label} header lines differ between {base[0]} and {vdesc}: "
                                     f"{sorted(set(bv[0]) ^ set(vv[0]))[:4]}", sub_case, key=f"{name}:{label}:header")
                    if bv[1]:
                        nontrivial = True
                if nontrivial:
                    ctx.nontrivial(f"{name}|{vdesc}|{vi}|{digest}")
            if base is not None:
                ctx.sample({"subcommand": name, "variants": [f"{s}/{t}" for s, t in variants],
                            "records": {k: (len(v[1]) if v else None) for k, v in base[1].items()}})
    finally:
        shutil.rmtree(d, ignore_errors=True)


# ------------------------------------------------------------------------------------------------
# in-process: ReadSet.sort is a function of the set of reads
# ------------------------------------------------------------------------------------------------

def readset_sort_case(rng):
    n = rng.randrange(2, 12)
    reads = []
    for i in range(n):
        nv = rng.choice([0, 1, 2, 3])
        first = rng.choice([10, 10, 20, 30, 40])
        reads.append({"name": rng.choice(["r", "read", "q", "zz"]) + str(i if rng.random() < 0.8 else i // 2),
                      "source": rng.randrange(0, 3), "nv": nv, "first": first})
    # (name, source) must be unique in a ReadSet
    seen, out = set(), []
    for r in reads:
        if (r["name"], r["source"]) not in seen:
            seen.add((r["name"], r["source"])); out.append(r)
    return {"kind": "readsort", "reads": out, "orders": [rng.sample(range(len(out)), len(out)) for _ in range(4)]}


def check_readsort(ctx, case):
    from whatshap.core import Read, ReadSet
    results = []
    for order in [list(range(len(case["reads"])))] + case["orders"]:
        rs = ReadSet()
        for i in order:
            r = case["reads"][i]
            rd = Read(r["name"], 60, r["source"])
            for j in range(r["nv"]):
                rd.add_variant(r["first"] + 5 * j, j % 2, 30)
            rs.add(rd)
        rs.sort()
        results.append([(rd.name, rd.source_id) for rd in rs])
    ctx.evaluated()
    if any(r != results[0] for r in results):
        ctx.fail(f"ReadSet.sort depends on insertion order: {results[0]} vs {[r for r in results if r != results[0]][0]}",
                 case, key="readset-sort-order")
    # the part of the comparator that does not involve std::hash: no-variant reads first, then by first position
    key = {(r["name"], r["source"]): (r["nv"] > 0, r["first"] if r["nv"] > 0 else 0) for r in case["reads"]}
    ks = [key[x] for x in results[0]]
    if ks != sorted(ks):
        ctx.fail(f"ReadSet.sort order {results[0]} is not (no-variant first, first position)", case, key="readset-sort-prefix")
    firsts = [r["first"] for r in case["reads"] if r["nv"] > 0]
    if len(firsts) != len(set(firsts)):
        ctx.nontrivial("readsort" + json.dumps(case, sort_keys=True))
    return results[0]



# ------------------------------------------------------------------------------------------------
# read selection after ReadSet.sort: a function of the SET of reads (Props.C16.selection_outcomes_order_independent)
# ------------------------------------------------------------------------------------------------

def selection_case(rng):
    """a few reads over a handful of variant positions, several sharing their first position (ties of the comparator up to
    std::hash) and several with equal scores (ties of the priority queue); unique (name, source id)"""
    n = rng.randrange(2, 8)
    grid = [10, 20, 30, 40, 50, 60]
    reads, seen = [], set()
    for i in range(n):
        if reads and rng.random() < 0.3:
            base = rng.choice(reads)        # a twin: same variants, another name
            pos, qual = list(base["pos"]), list(base["qual"])
        else:
            a = rng.randrange(0, len(grid) - 1)
            span = grid[a:a + rng.choice([2, 2, 3, 4])]
            pos = [p for j, p in enumerate(span) if j in (0, len(span) - 1) or rng.random() < 0.7]
            qual = [rng.choice([10, 30, 30, 30]) for _ in pos]
        name = rng.choice(["r", "read", "q"]) + str(i)
        src = rng.randrange(0, 2)
        if (name, src) in seen:
            continue
        seen.add((name, src))
        reads.append({"name": name, "source": src, "pos": pos, "qual": qual})
    if rng.random() < 0.05:
        reads[0]["pos"], reads[0]["qual"] = reads[0]["pos"][:1], reads[0]["qual"][:1]      # ValueError: a single variant
    pref = rng.choice([None, None, [0], [1]])
    return {"kind": "selection", "reads": reads, "k": rng.choice([1, 1, 2, 3]), "preferred": pref,
            "orders": [rng.sample(range(len(reads)), len(reads)) for _ in range(3)]}


def check_selection(ctx, case):
    """returns (request for c16.select, what the implementation did) or None"""
    from whatshap.core import Read, ReadSet
    from whatshap.readselect import readselection
    reads = case["reads"]
    results = []
    for order in [list(range(len(reads)))] + case["orders"]:
        rs = ReadSet()
        for i in order:
            r = reads[i]
            rd = Read(r["name"], 60, r["source"])
            for p_, q in zip(r["pos"], r["qual"]):
                rd.add_variant(p_, 0, q)
            rs.add(rd)
        rs.sort()
        names = [(rd.name, rd.source_id) for rd in rs]
        try:
            with contextlib.redirect_stdout(io.StringIO()):      # readselection prints the offending read
                sel = readselection(rs, case["k"], set(case["preferred"]) if case["preferred"] is not None else None)
            out = sorted(names[i] for i in sel)
        except ValueError:
            out = "ValueError"
        results.append((names, out))
    ctx.evaluated()
    ctx.dist("selection_reads", len(reads))
    if any(r != results[0] for r in results):
        other = [r for r in results if r != results[0]][0]
        ctx.fail(f"read selection after ReadSet.sort depends on the order the reads were added: {results[0][1]} vs {other[1]} "
                 f"(sorted read sets {results[0][0]} / {other[0]})", case, key="selection-insertion-order")
    names, out = results[0]
    firsts = [r["pos"][0] for r in reads]
    if len(firsts) != len(set(firsts)) and out != "ValueError" and len(out) < len(reads):
        ctx.nontrivial("selection" + json.dumps(case, sort_keys=True))
    # the model: the same reads in the last insertion order; std::hash is replaced by the rank the implementation's own
    # sort gave to (name, source id)
    rank = {ns: i for i, ns in enumerate(names)}
    order = case["orders"][-1] if case["orders"] else list(range(len(reads)))
    req = {"op": "c16.select", "k": case["k"], "bridging": True,
           "reads": [[1, reads[i]["pos"][0], rank[(reads[i]["name"], reads[i]["source"])], [ord(ch) for ch in reads[i]["name"]],
                      reads[i]["source"], reads[i]["pos"], reads[i]["qual"],
                      int(case["preferred"] is not None and reads[i]["source"] in case["preferred"])] for i in order]}
    impl = "ValueError" if out == "ValueError" else sorted(rank[x] for x in out)
    return req, [[n, s_] for n, s_ in names], impl


def bam_order_inputs(P, d, seed):
    """the family BAM with twin alignments (same start, other name) and (a) the records of every start position in
    another order, (b) split into two files.  Returns dict of paths, whether read names are unique, #positions shared"""
    import random
    rng = random.Random(seed)
    src = pysam.AlignmentFile(P["bam"])
    header = src.header
    recs = []
    for r in src:
        recs.append(r)
        if not r.is_unmapped and rng.random() < 0.35:
            dct = r.to_dict()
            dct["name"] = r.query_name + "_t"
            recs.append(pysam.AlignedSegment.from_dict(dct, header))
    src.close()
    groups = collections.OrderedDict()
    for r in recs:
        groups.setdefault((r.reference_id, r.reference_start), []).append(r)
    perm = []
    for g in groups.values():
        g2 = list(g)
        if len(g2) > 1:
            while g2 == g:
                rng.shuffle(g2)
        perm += g2
    out = {}
    for label, rr in (("twin", recs), ("perm", perm), ("a", recs[0::2]), ("b", recs[1::2])):
        path = os.path.join(d, f"order_{label}.bam")
        with pysam.AlignmentFile(path, "wb", header=header) as f:
            for r in rr:
                f.write(r)
        pysam.index(path)
        out[label] = path
    keys = [(r.query_name, r.is_read1, r.is_read2, r.is_supplementary, r.is_secondary) for r in recs]
    return out, len(keys) == len(set(keys)) and len({r.query_name for r in recs}) == len(recs), sum(len(g) > 1 for g in groups.values())


def bam_order_check(ctx, case, P, d):
    """metamorphic: the same alignments delivered in another order (records of one start position permuted; split over two
    files given in either order).  `ReadSet.sort` canonicalises the read order when (name, source id) is unique, so the
    record order must not matter; the file order changes the source ids (part of the sort key) and is reported only."""
    B, unique, shared = bam_order_inputs(P, d, int(case.get("digest") or 0))
    ctx.dist("bam_order_shared_starts", min(shared, 20))

    def run(tag, sub, bams):
        o = os.path.join(d, "run_order_" + tag)
        os.makedirs(o, exist_ok=True)
        if sub == "phase":
            # a low cap: the read selection has to drop reads, twins tie in its priority queue
            args = ["phase", P["vcf"]] + bams + ["-o", o + "/out.vcf", "--reference", P["fa"], "--output-read-list", o + "/reads.tsv",
                    "--internal-downsampling", "4"]
            outs = {"vcf": (o + "/out.vcf", "vcf"), "readlist": (o + "/reads.tsv", "text")}
        else:
            args = ["genotype", P["vcf"]] + bams + ["-o", o + "/out.vcf", "--reference", P["fa"]]
            outs = {"vcf": (o + "/out.vcf", "vcf")}
        rc, so, se, _ = sim.whatshap(args, ctx.overlay, env_extra={"PYTHONHASHSEED": "0"}, timeout=900)
        views = {k: (load(p_, kind) if rc == 0 and os.path.exists(p_) else None) for k, (p_, kind) in outs.items()}
        shutil.rmtree(o, ignore_errors=True)
        return rc, (se.strip().splitlines() or [""])[-1][:300], views

    for sub in ("phase", "genotype"):
        rc0, err0, base = run(sub + "_twin", sub, [B["twin"]])
        if rc0 != 0:
            ctx.observe(f"{sub}: baseline run on the BAM with twin reads failed: {err0}")
            continue
        rc1, err1, perm = run(sub + "_perm", sub, [B["perm"]])
        ctx.evaluated()
        ctx.dist("subcommand", sub + "-bam-record-order")
        sub_case = dict(case, only=["bam-order"])
        if rc1 != 0:
            ctx.fail(f"{sub}: fails when the BAM records of one start position come in another order ({err1})", sub_case,
                     key=f"{sub}:bam-record-order:crash")
        else:
            for label, bv in base.items():
                vv = perm.get(label)
                if bv is None or vv is None or bv[1] != vv[1]:
                    msg = (f"{sub}: {label} records differ when the BAM records of one start position come in another order: "
                           f"{first_diff(bv[1], vv[1]) if bv and vv else 'missing output'}")
                    if unique:
                        ctx.fail(msg, sub_case, key=f"{sub}:bam-record-order:{label}")
                    else:
                        ctx.observe(msg + " (read names not unique)")
            if shared and base.get("vcf") and base["vcf"][1]:
                ctx.nontrivial(f"{sub}-bam-order|{case.get('digest', '')}")
        # input file order: source ids (part of the read order) change with it; reported, not demanded
        rca, erra, ab = run(sub + "_ab", sub, [B["a"], B["b"]])
        rcb, errb, ba = run(sub + "_ba", sub, [B["b"], B["a"]])
        ctx.evaluated()
        ctx.dist("subcommand", sub + "-bam-file-order")
        if rca != 0 or rcb != 0:
            if (rca == 0) != (rcb == 0):
                ctx.fail(f"{sub}: succeeds with the two BAM files in one order and fails in the other ({erra or errb})", sub_case,
                         key=f"{sub}:bam-file-order:crash")
            continue
        if any((ab[l] or [None, None])[1] != (ba[l] or [None, None])[1] for l in ab if l != "readlist"):
            ctx.observe(f"{sub}: the result depends on the order in which two BAM files are given (source ids enter "
                        "ReadSet.sort's key and thereby the tie-breaking of the read selection)")
        else:
            ctx.observe(f"{sub}: same records with two BAM files given in either order")

# ------------------------------------------------------------------------------------------------

def gen_input(rng, quick, scale=1):
    fam = c16_inputs.family_scenario(rng, n_contigs=3, n_variants=(4, 7) if quick else (5, 10 * scale))
    k = rng.choice([3, 4])
    poly = c15_poly.PolyScenario.generate(rng, ploidy=k, n_contigs=2, n_variants=(6, 10) if quick else (8, 16),
                                          cov_per_hap=(3, 6), gap_frac=0.3, samples=("P1", "P2"))
    inp = {"family": fam.as_case(), "poly": poly.as_case()}
    return {"kind": "explore", "input": inp, "digest": str(rng.randrange(10**9))}


def run_selection_batch(ctx, cases):
    batch = [(c, check_selection(ctx, c)) for c in cases]
    answers = ctx.model.ask_many([b[1][0] for b in batch])
    for (case, (req, names, impl)), ans in zip(batch, answers):
        model_sorted = [["".join(chr(c) for c in name), src] for name, src in ans["sorted"]]
        if model_sorted != names:
            ctx.disagree("c16.select:sorted", case, names, model_sorted)
        elif impl not in ans["outcomes"]:
            ctx.disagree("c16.select", case, impl, ans["outcomes"])
        else:
            ctx.dist("selection_admissible_outcomes", min(len(ans["outcomes"]), 5))


def run(ctx):
    rng = ctx.rng
    if ctx.replay:
        case = json.load(open(ctx.replay))["case"]
        if case.get("kind") == "readsort":
            check_readsort(ctx, case)
        elif case.get("kind") == "selection":
            run_selection_batch(ctx, [case])
        else:
            explore(ctx, case, only=case.get("only"))
        shutil.rmtree(ctx.workdir(), ignore_errors=True)
        return
    for _, c in ctx.corpus():
        if c.get("kind") == "readsort":
            check_readsort(ctx, c)
        elif c.get("kind") == "selection":
            run_selection_batch(ctx, [c])
        else:
            explore(ctx, c, only=c.get("only"))
    # in-process
    batch = []
    for i in range((300 if ctx.quick else 3000) * ctx.scale):
        case = readset_sort_case(rng)
        order = check_readsort(ctx, case)
        # model correspondence where the order does not depend on std::hash: all (hasVariants, first) classes distinct
        cls = [(r["nv"] > 0, r["first"] if r["nv"] > 0 else 0) for r in case["reads"]]
        if len(set(cls)) == len(cls):
            batch.append(({"op": "c16.sort", "reads": [[int(r["nv"] > 0), r["first"], 0, [ord(ch) for ch in r["name"]],
                                                        r["source"]] for r in case["reads"]]},
                          case, [[n, s] for n, s in order]))
    if batch:
        answers = ctx.model.ask_many([b[0] for b in batch])
        for (req, case, impl), ans in zip(batch, answers):
            model = [["".join(chr(c) for c in name), src] for name, src in ans]
            if model != impl:
                ctx.disagree("c16.sort", case, impl, model)
    run_selection_batch(ctx, [selection_case(rng) for _ in range((300 if ctx.quick else 3000) * ctx.scale)])
    # exploration
    for i in range((1 if ctx.quick else 3) * ctx.scale):
        explore(ctx, gen_input(rng, ctx.quick, ctx.scale))
    shutil.rmtree(ctx.workdir(), ignore_errors=True)

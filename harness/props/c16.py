"""C16 — results depend on the input only: not on hash seed, thread count or repetition.

Level "other".  Theorems (lean/WhVerif/Props/C16.lean) cover the order-independence arguments that are logic
(the read comparator is a total order whose sort is a function of the read set; block results re-sorted by block
id; sorted(set) independent of the enumeration).  The part that can find failures is the exploration below:
every subcommand that writes a VCF/BAM/TSV is run on the same generated input under several PYTHONHASHSEED
values, thread counts and twice, and the outputs are compared record for record (command-line header / @PG CL
removed; header definition lines compared as a multiset — their order is F6, an observation).

Round 7: besides the plain invocation of every subcommand, the non-default branches of its argument parser that touch
per-sample / per-family / per-chromosome state are run as well (`subcommands()`: "option variants": genotype --no-priors /
--ped / --use-ped-samples / --prioroutput / several --sample / --ignore-read-groups; phase --algorithm heuristic|hapchat,
--use-ped-samples --distrust-genotypes with all three lists on wrong genotypes, --sample/--chromosome/--tag HP, --merge-reads,
--ignore-read-groups, --no-genetic-haplotyping; haplotag --ignore-read-groups with several --sample, --tag-supplementary and
linked reads (BX), --ignore-linked-read; polyphase --distrust-genotypes --include-haploid-sets, --sample/--chromosome, ...;
compare/stats/split/haplotagphase/unphase options), and the hash seeds are no longer 0, 1, random but chosen per subcommand
so that the sets of names it iterates over come in different orders (c16_inputs.covering_seeds).  All runs of one input are
executed by a small pool of worker threads (independent processes).

Round 10: inputs with EXACT TIES at the places where a subcommand takes a maximum / the first of several equal elements
(harness/gen/c16_ties.py): haplotag lists in which several phase sets of every chromosome tie for the largest number of tagged
reads (`split --only-largest-block`: variants split-largest-ties[-gz] on the generated input, and the stream of small lists
`split-ties`, both under hash seeds that enumerate the tied names in different orders; kept reads compared with the Lean model
`c16.largest`), phased VCFs with blocks of equal size and span (stats-tied-blocks, compare-tied-blocks).
"""
import collections, contextlib, gzip, io, itertools, json, os, shutil, sys
from concurrent.futures import ThreadPoolExecutor

import pysam

from harness.gen import sim, c15_poly, c16_inputs, c16_ties

LEVEL = "other"
EXPLANATION = ("No executable model can exhibit CPython's hash randomisation, multiprocessing scheduling or htslib's "
               "compression threads, so the property itself is explored, not proved: each writing subcommand is re-run "
               "on identical generated inputs under PYTHONHASHSEED in {0, seeds that reorder the name sets, random,...}, --threads 1..4 (polyphase), "
               "--output-threads 1..4 (haplotag) and repeated, and all outputs must be record-for-record identical. "
               "Lean proves only the logical core: the places where the code re-establishes an order (ReadSet::sort's "
               "comparator, sort by block id, sorted(set)) yield a result that is a function of the multiset. Not "
               "covered: std::hash<std::string> determinism across runs (libstdc++ guarantees it), the OS scheduler "
               "beyond the thread counts tried, the union-find order-independence (C18's theorem, not re-proved here).")
RULE = ("one evaluation = one (subcommand, input, variant) run compared with the baseline run of the same subcommand on "
        "the same input; variant = hash seed / thread count / repetition. Non-trivial: the compared output holds at "
        "least one data record and the variant differs from the baseline in seed, threads or is a repetition; "
        "distinct = distinct (subcommand, variant, input digest). In-process: ReadSet.sort under permuted insertion "
        "orders (non-trivial: >= 2 reads share a first position); readselection after ReadSet.sort under permuted insertion "
        "orders (non-trivial: two reads share a first position and some read is rejected); phase/genotype on a BAM whose records "
        "of one start position are permuted; split --only-largest-block on haplotag lists with tied phase sets (non-trivial: at least "
        "one chromosome has >= 2 phase sets of the largest size and reads are kept)")
MANIFEST = dict(
    category="other",
    text="partial Lean 4 theorems (read comparator is a total order and ReadSet::sort a function of the read set; "
         "polyphase block results re-sorted by block id and sorted(set) are independent of arrival/enumeration order) "
         "; read selection after ReadSet::sort returns the same selection, for every resolution of its priority-queue ties, "
         "whatever order the reads arrive in (selection_outcomes_order_independent; composed with the C07 model of "
         "readselection), a tie witness and uniqueness of the outcome when no tie is decisive "
         "plus schedule/seed exploration: phase, phase --ped --use-ped-samples, genotype, polyphase, haplotag, unphase, "
         "stats, compare, split, haplotagphase and about 30 option variants of them (the non-default parser branches that "
         "touch per-sample / per-family / per-chromosome state: --no-priors, --ped, --use-ped-samples, several --sample, "
         "--ignore-read-groups, --algorithm, --distrust-genotypes with all lists, --tag-supplementary, linked reads, ...) "
         "and inputs with exact ties where a maximum is taken (split --only-largest-block with tied phase sets, stats/compare with "
         "equal-size blocks; the largest-block choice modelled: Counter in first-occurrence order + most_common(1)) "
         "re-run on identical generated multi-sample multi-chromosome inputs under PYTHONHASHSEED values chosen so that the "
         "sets of sample names come in different iteration orders, --threads / --output-threads 1..4 and repeated; outputs "
         "compared record for record",
    design_ref="DESIGN.md §5 C16",
    note="NOT a proof of the property: hash randomisation, worker scheduling and compression threads cannot be exhibited "
         "by the model; evidence is the exploration (bounded by seeds/thread counts/inputs tried). F6 (order of added "
         "##INFO header lines depends on the hash seed) is recorded as an observation: header definition lines are "
         "compared as a multiset because the property speaks of records",
    technique="Lean 4 order-independence lemmas + differential re-execution under varied seeds/threads",
)
ASSUMPTIONS = ["std::hash<std::string> is deterministic across processes (libstdc++)",
               "the recorded command line (##commandline, @PG CL) is excluded as the property states; output paths differ "
               "between runs and appear only there",
               "header definition lines are compared as a multiset (order = F6, observation)",
               "BAM record-order runs: read names are unique (twin alignments get their own names); a different ORDER OF INPUT FILES "
               "changes the source ids, which are part of ReadSet::sort's key: differences there are reported as observations",
               "c16.select: std::hash of (name, source id) is replaced by the rank the implementation's own sort assigned",
               "covering seeds: the iteration order of a str set under a PYTHONHASHSEED is probed with the same interpreter "
               "(set built from a list, by add, by intersection); whatshap may build its sets by other routes, the probe only "
               "steers the choice of seeds, every comparison is between real runs",
               "option variants whose command fails under EVERY seed (a deterministic defect, not this property) are "
               "reported as observations"]

K_F47 = "F47-compare-multiway-sample-column-set-order"
K_F110 = "F110-haplotag-ignore-read-groups-sample-set-order"
K_F111 = "F111-phase-heuristic-use-ped-samples-member-order"
K_F112 = "F112-changed-genotype-list-row-order-use-ped-samples"
K_FC16A = "FC16a-genotype-family-gl-rounding-member-order"

# Hash seeds: "0" is the baseline; "C" stands for the next seed of the subcommand's COVERING list (c16_inputs.covering_seeds:
# seeds under which the sets of sample names this run iterates over come in different orders - every member first / last,
# every pair both ways); the last "0" = the baseline configuration once more (another output directory)
SEEDS_QUICK = ["0", "C", "C", "random", "0"]
SEEDS_THOROUGH = ["0", "C", "C", "C", "C", "C", "C", "7", "42", "4294967295", "random", "random", "0", "1"]
SEEDS_LIGHT_QUICK = ["0", "C", "C", "C"]            # option variants (no repetition in the quick tier)
SEEDS_LIGHT_THOROUGH = ["0", "C", "C", "C", "C", "C", "C", "random", "0"]
SEED_POOL = range(48)
JOBS = int(os.environ.get("VERIF_C16_JOBS") or max(2, min(6, (os.cpu_count() or 2) // 2)))


# ------------------------------------------------------------------------------------------------
# canonical views of outputs
# ------------------------------------------------------------------------------------------------

def vcf_view(text):
    hdr, recs = [], []
    for line in text.splitlines():
        if line.startswith("##commandline="):
            continue
        (hdr if line.startswith("#") else recs).append(line)
    return hdr, recs


def bam_view(path):
    with pysam.AlignmentFile(path, check_sq=False) as f:
        hdr = []
        for line in str(f.header).splitlines():
            if line.startswith("@PG"):
                line = "\t".join(x for x in line.split("\t") if not x.startswith("CL:"))
            hdr.append(line)
        recs = [r.to_string() for r in f.fetch(until_eof=True)]
    return hdr, recs


def text_view(text):
    return [], text.splitlines()


def load(path, kind):
    if kind == "bam":
        return bam_view(path)
    with open(path) as f:
        t = f.read()
    return vcf_view(t) if kind == "vcf" else text_view(t)


def first_diff(a, b):
    for i, (x, y) in enumerate(zip(a, b)):
        if x != y:
            return f"record {i}: {x[:160]!r} vs {y[:160]!r}"
    return f"{len(a)} vs {len(b)} records"


# ------------------------------------------------------------------------------------------------
# the subcommands
# ------------------------------------------------------------------------------------------------

def prepare_inputs(ctx, case, d):
    """writes the input files of a case into d; returns a dict of paths"""
    rngless = case["input"]
    P = {}
    fam = c15_poly.PolyScenario.from_case(rngless["family"])
    fd = os.path.join(d, "fam")
    P["fa"], P["bam"], P["vcf"] = fam.write(fd, records=fam.vcf_records(info=c16_inputs.info_fn(fam)))
    P["ped"] = os.path.join(fd, "fam.ped")
    with open(P["ped"], "w") as f:
        f.write(c16_inputs.ped_text())
    poly = c15_poly.PolyScenario.from_case(rngless["poly"])
    P["pfa"], P["pbam"], P["pvcf"] = poly.write(os.path.join(d, "poly"))
    P["ploidy"] = list(poly.ploidy.values())[0]
    # the same polyploid data with pre-phased stretches (true haplotype order, PS) for the FIRST sample only: with
    # --use-prephasing one sample has phased blocks and the other has none (per-sample state must not leak)
    def prephased(si):
        precs = poly.vcf_records()
        idx = 0
        s0 = poly.samples[si]
        for name in poly.contigs:
            nv = len(poly.variants[name])
            for i in range(nv):
                r = precs[idx]; idx += 1
                r["format"] = ["GT", "PS"]
                for c in r["calls"]:
                    c["PS"] = "."
                col = [h[i] for h in poly.haps[f"{s0}|{name}"]]
                first_contig = name == list(poly.contigs)[0]
                block = 0 if first_contig else i // 3     # first contig: ONE stretch across the coverage gap
                if (first_contig or block % 2 == 0) and len(set(col)) > 1 and "." not in r["calls"][si]["GT"]:
                    r["calls"][si] = {"GT": "|".join(map(str, col)), "PS": poly.variants[name][3 * block]["pos"] + 1}
        return precs
    P["pvcf_pre"] = os.path.join(d, "poly", "in_pre.vcf")
    # ... and with the roles exchanged (only the LAST sample pre-phased): whichever sample the run happens to take first,
    # one of the two files has the sample without phased blocks in front of the pre-phased one
    P["pvcf_pre2"] = os.path.join(d, "poly", "in_pre2.vcf")
    for path, si in ((P["pvcf_pre"], 0), (P["pvcf_pre2"], len(poly.samples) - 1)):
        sim.write_vcf(path, poly.contigs, poly.all_samples(), prephased(si),
                      fmt_defs={"PS": '##FORMAT=<ID=PS,Number=1,Type=Integer,Description="Phase set">'})
    # derived inputs, produced once with the baseline configuration
    env0 = {"PYTHONHASHSEED": "0"}

    def must(args, stdout_to=None):
        rc, out, err, _ = sim.whatshap(args, ctx.overlay, env_extra=env0)
        if rc != 0:
            raise RuntimeError(f"preparing inputs: whatshap {args[0]} failed: {err[-400:]}")
        if stdout_to:
            with open(stdout_to, "w") as f:
                f.write(out)
    P["phasedA"] = os.path.join(fd, "phasedA.vcf")
    P["phasedB"] = os.path.join(fd, "phasedB.vcf")
    must(["phase", P["vcf"], P["bam"], "-o", P["phasedA"], "--reference", P["fa"]])
    must(["phase", "--ped", P["ped"], "--use-ped-samples", P["vcf"], P["bam"], "-o", P["phasedB"], "--reference", P["fa"]])
    P["phasedA_gz"] = P["phasedA"] + ".gz"
    pysam.tabix_compress(P["phasedA"], P["phasedA_gz"], force=True)
    pysam.tabix_index(P["phasedA_gz"], preset="vcf", force=True)
    # three single-sample VCFs with different sample names (for compare --ignore-sample-name)
    P["singles"] = []
    lines = open(P["phasedA"]).read().splitlines()
    hdr = next(l for l in lines if l.startswith("#CHROM")).split("\t")
    for si in range(min(3, len(hdr) - 9)):
        path = os.path.join(fd, f"single{si}.vcf")
        with open(path, "w") as f:
            for l in lines:
                if l.startswith("##"):
                    f.write(l + "\n")
                else:
                    c = l.split("\t")
                    f.write("\t".join(c[:9] + [c[9 + si]]) + "\n")
        P["singles"].append(path)
    P["tagged"] = os.path.join(fd, "tagged.bam")
    P["taglist"] = os.path.join(fd, "tags.tsv")
    must(["haplotag", P["phasedA_gz"], P["bam"], "-o", P["tagged"], "--reference", P["fa"], "--output-haplotag-list",
          P["taglist"]])
    pysam.index(P["tagged"])
    # ---- round 7: inputs of the option variants ------------------------------------------------------------------
    seed = int(case.get("digest") or 0)
    P["samples"] = list(fam.samples)
    P["contig_names"] = list(fam.contigs)
    P["pcontig_names"] = list(poly.contigs)
    P["psamples"] = list(poly.samples)
    P["ped1"] = os.path.join(fd, "fam1.ped")
    with open(P["ped1"], "w") as f:
        f.write(c16_inputs.ped1_text())
    P["vcf_noisy"] = os.path.join(fd, "in_noisy.vcf")
    c16_inputs.noisy_vcf(P["vcf"], P["vcf_noisy"], seed)
    P["bam_supp"] = os.path.join(fd, "in_supp.bam")
    P["n_supp"], P["n_bx"] = c16_inputs.supp_bam(P["bam"], P["bam_supp"], seed)
    P["chrlen"] = os.path.join(fd, "chrlen.tsv")
    with open(P["chrlen"], "w") as f:
        for name, seq in fam.contigs.items():
            f.write(f"{name}\t{len(seq)}\n")
    P["taglist_gz"] = P["taglist"] + ".gz"
    with open(P["taglist"], "rb") as f, gzip.open(P["taglist_gz"], "wb") as g:
        g.write(f.read())
    # a haplotag list that knows only every second read (split --discard-unknown-reads)
    P["taglist_half"] = os.path.join(fd, "tags_half.tsv")
    with open(P["taglist"]) as f, open(P["taglist_half"], "w") as g:
        for i, line in enumerate(f):
            if line.startswith("#") or i % 2 == 0:
                g.write(line)
    if P["singles"]:
        P["single0_gz"] = P["singles"][0] + ".gz"
        pysam.tabix_compress(P["singles"][0], P["single0_gz"], force=True)
        pysam.tabix_index(P["single0_gz"], preset="vcf", force=True)
    P["polyphased"] = os.path.join(d, "poly", "phased.vcf")
    must(["polyphase", P["pvcf"], P["pbam"], "--ploidy", P["ploidy"], "-o", P["polyphased"], "--reference", P["pfa"]])
    # ---- round 10: inputs with EXACT TIES at the places where a maximum / first of equals is taken -----------------------
    P["taglist_ties"] = os.path.join(fd, "tags_ties.tsv")
    P["tie_rows"], P["ties"] = c16_ties.tied_haplotag_list(P["taglist"], P["taglist_ties"], seed)
    P["taglist_ties_gz"] = P["taglist_ties"] + ".gz"
    with open(P["taglist_ties"], "rb") as f, gzip.open(P["taglist_ties_gz"], "wb") as g:
        g.write(f.read())
    P["tieA"], P["tieB"] = os.path.join(fd, "tieA.vcf"), os.path.join(fd, "tieB.vcf")
    P["n_tie_contigs"] = c16_ties.tied_block_vcfs(fam.contigs, P["tieA"], P["tieB"], seed)
    tie_sets = [list(v) for v in P["ties"].values()][:3]
    tie_sets += [[] for _ in range(3 - len(tie_sets))]
    # the sets of names the runs iterate over (for the choice of hash seeds)
    T = c16_inputs.trios()
    P["sets"] = collections.OrderedDict([
        ("S", list(fam.samples)), ("T0", list(T[0])), ("T1", list(T[1])), ("PED", [s for t in T for s in t]),
        ("POLY", list(poly.samples)), ("HT3", [T[0][2], T[1][0], c16_inputs.NAMES[2][0]]),
        ("SUB", [c16_inputs.NAMES[2][0], T[1][2], T[0][0]]), ("HT2", [T[0][1], T[1][2]]),
        ("INFO", ["AC", "AN"]), ("TIE0", tie_sets[0]), ("TIE1", tie_sets[1]), ("TIE2", tie_sets[2])])
    P["probed"] = c16_inputs.probe_orders(list(P["sets"].values()), SEED_POOL, sim.PY)
    return P


def subcommands(P, quick, only=None):
    """name -> (args builder(outdir, threads) -> (args, {label: (path|'<stdout>', kind)}), thread option values)"""
    def phase(o, t):
        return (["phase", P["vcf"], P["bam"], "-o", o + "/out.vcf", "--reference", P["fa"], "--output-read-list",
                 o + "/reads.tsv"], {"vcf": (o + "/out.vcf", "vcf"), "readlist": (o + "/reads.tsv", "text")})

    def phase_ped(o, t):
        return (["phase", "--ped", P["ped"], "--use-ped-samples", P["vcf"], P["bam"], "-o", o + "/out.vcf",
                 "--reference", P["fa"], "--recombination-list", o + "/recomb.tsv"],
                {"vcf": (o + "/out.vcf", "vcf"), "recomb": (o + "/recomb.tsv", "text")})

    def phase_ped_lists(o, t):
        # every auxiliary list at once, genotypes distrusted (so that genotype changes exist)
        return (["phase", "--ped", P["ped"], P["vcf"], P["bam"], "-o", o + "/out.vcf", "--reference", P["fa"],
                 "--distrust-genotypes", "--recombination-list", o + "/recomb.tsv", "--changed-genotype-list", o + "/gtchanges.tsv",
                 "--output-read-list", o + "/reads.tsv"],
                {"vcf": (o + "/out.vcf", "vcf"), "recomb": (o + "/recomb.tsv", "text"), "gtchanges": (o + "/gtchanges.tsv", "text"),
                 "readlist": (o + "/reads.tsv", "text")})

    def genotype(o, t):
        return (["genotype", P["vcf"], P["bam"], "-o", o + "/out.vcf", "--reference", P["fa"]],
                {"vcf": (o + "/out.vcf", "vcf")})

    def genotype_ped(o, t):
        return (["genotype", "--ped", P["ped"], "--use-ped-samples", "--chromosome", "chr1", P["vcf"], P["bam"], "-o",
                 o + "/out.vcf", "--reference", P["fa"]], {"vcf": (o + "/out.vcf", "vcf")})

    def polyphase(o, t):
        return (["polyphase", P["pvcf"], P["pbam"], "--ploidy", P["ploidy"], "-o", o + "/out.vcf", "--reference", P["pfa"],
                 "--threads", t], {"vcf": (o + "/out.vcf", "vcf")})

    def polyphase_pre(o, t):
        return (["polyphase", P["pvcf_pre"], P["pbam"], "--ploidy", P["ploidy"], "-o", o + "/out.vcf", "--reference",
                 P["pfa"], "--use-prephasing", "-B", "0", "--threads", t], {"vcf": (o + "/out.vcf", "vcf")})

    def polyphase_pre2(o, t):
        return (["polyphase", P["pvcf_pre2"], P["pbam"], "--ploidy", P["ploidy"], "-o", o + "/out.vcf", "--reference",
                 P["pfa"], "--use-prephasing", "-B", "0", "--threads", t], {"vcf": (o + "/out.vcf", "vcf")})

    def haplotag(o, t):
        return (["haplotag", P["phasedA_gz"], P["bam"], "-o", o + "/out.bam", "--reference", P["fa"],
                 "--output-haplotag-list", o + "/tags.tsv", "--output-threads", t],
                {"bam": (o + "/out.bam", "bam"), "taglist": (o + "/tags.tsv", "text")})

    def haplotag_regions(o, t):
        # several --regions values: the order in which regions/chromosomes are processed must not depend on the
        # interpreter's hash seed (regions are given in BAM order and do not overlap)
        import pysam as _pysam
        with _pysam.AlignmentFile(P["bam"]) as _b:
            refs = list(_b.references)
        regs = []
        for r in refs:
            regs += ["--regions", r]
        return (["haplotag", P["phasedA_gz"], P["bam"], "-o", o + "/out.bam", "--reference", P["fa"],
                 "--output-haplotag-list", o + "/tags.tsv"] + regs,
                {"bam": (o + "/out.bam", "bam"), "taglist": (o + "/tags.tsv", "text")})

    def unphase(o, t):
        return (["unphase", P["phasedA"]], {"vcf": ("<stdout>", "vcf")})

    def stats(o, t):
        return (["stats", P["phasedA"], "--tsv", o + "/s.tsv", "--block-list", o + "/blocks.tsv", "--gtf", o + "/s.gtf"],
                {"tsv": (o + "/s.tsv", "text"), "blocks": (o + "/blocks.tsv", "text"), "gtf": (o + "/s.gtf", "text"),
                 "stdout": ("<stdout>", "text")})

    def compare(o, t):
        return (["compare", "--tsv-pairwise", o + "/p.tsv", "--tsv-multiway", o + "/m.tsv", "--switch-error-bed",
                 o + "/e.bed", "--longest-block-tsv", o + "/lb.tsv", "--names", "a,b,c", "--sample",
                 c16_inputs.NAMES[0][2], P["phasedA"], P["phasedB"], P["phasedA"]],
                {"pairwise": (o + "/p.tsv", "text"), "multiway": (o + "/m.tsv", "text"), "bed": (o + "/e.bed", "text"),
                 "longest": (o + "/lb.tsv", "text"), "stdout": ("<stdout>", "text")})

    def compare_ignore(o, t):
        return (["compare", "--ignore-sample-name", "--tsv-pairwise", o + "/p.tsv", "--tsv-multiway", o + "/m.tsv",
                 "--names", "a,b,c"] + P["singles"],
                {"pairwise": (o + "/p.tsv", "text"), "multiway": (o + "/m.tsv", "text"), "stdout": ("<stdout>", "text")})

    def split(o, t):
        return (["split", "--output-h1", o + "/h1.bam", "--output-h2", o + "/h2.bam", "--output-untagged", o + "/u.bam",
                 "--read-lengths-histogram", o + "/hist.tsv", P["bam"], P["taglist"]],
                {"h1": (o + "/h1.bam", "bam"), "h2": (o + "/h2.bam", "bam"), "untagged": (o + "/u.bam", "bam"),
                 "hist": (o + "/hist.tsv", "text")})

    def haplotagphase(o, t):
        return (["haplotagphase", "-o", o + "/out.vcf", "--reference", P["fa"], P["phasedA_gz"], P["tagged"]],
                {"vcf": (o + "/out.vcf", "vcf")})

    # ---- round 7: the non-default branches of every argument parser that touch per-sample / per-family /
    # per-chromosome state (whatshap/cli/<cmd>.py add_arguments), on the multi-sample multi-chromosome inputs ----------
    S = P["sets"]
    C = P["contig_names"]
    fam_common = [P["vcf"], P["bam"], "--reference", P["fa"]]

    def sample_args(names):
        out = []
        for n_ in names:
            out += ["--sample", n_]
        return out

    def phase_algo(algo):
        def f(o, t):
            # hapchat: one sample only (its super-reads carry the numeric sample id 0: a second sample fails the check)
            return (["phase", "--algorithm", algo] + (["--sample", S["S"][0]] if algo == "hapchat" else []) + fam_common +
                    ["-o", o + "/out.vcf", "--output-read-list", o + "/reads.tsv"],
                    {"vcf": (o + "/out.vcf", "vcf"), "readlist": (o + "/reads.tsv", "text")})
        return f

    def phase_heuristic_ped1(o, t):
        # one trio only: the numeric sample ids of the family are 0, 1, 2 (the heuristic solver needs that)
        return (["phase", "--algorithm", "heuristic", "--ped", P["ped1"], "--use-ped-samples"] + fam_common +
                ["-o", o + "/out.vcf", "--output-read-list", o + "/reads.tsv"],
                {"vcf": (o + "/out.vcf", "vcf"), "readlist": (o + "/reads.tsv", "text")})

    def phase_pedsamples_lists(o, t):
        # wrong genotypes in several members of a family in one record, distrusted: all three lists
        return (["phase", "--ped", P["ped"], "--use-ped-samples", P["vcf_noisy"], P["bam"], "--reference", P["fa"], "-o",
                 o + "/out.vcf", "--distrust-genotypes", "--include-homozygous", "--recombination-list", o + "/recomb.tsv",
                 "--changed-genotype-list", o + "/gtchanges.tsv", "--output-read-list", o + "/reads.tsv"],
                {"vcf": (o + "/out.vcf", "vcf"), "recomb": (o + "/recomb.tsv", "text"), "gtchanges": (o + "/gtchanges.tsv", "text"),
                 "readlist": (o + "/reads.tsv", "text")})

    def phase_samples(o, t):
        return (["phase"] + sample_args(S["SUB"]) + ["--chromosome", C[-1], "--chromosome", C[0], "--tag", "HP"] + fam_common +
                ["-o", o + "/out.vcf", "--output-read-list", o + "/reads.tsv"],
                {"vcf": (o + "/out.vcf", "vcf"), "readlist": (o + "/reads.tsv", "text")})

    def phase_merge_reads(o, t):
        # one sample (the first one processed: merged reads carry the numeric sample id 0), all chromosomes
        return (["phase", "--merge-reads", "--only-snvs", "--sample", S["S"][0]] + fam_common + ["-o", o + "/out.vcf", "--output-read-list", o + "/reads.tsv"],
                {"vcf": (o + "/out.vcf", "vcf"), "readlist": (o + "/reads.tsv", "text")})

    def phase_ignore_rg(o, t):
        return (["phase", "--ignore-read-groups", "--sample", S["S"][-1], "--indels"] + fam_common + ["-o", o + "/out.vcf"],
                {"vcf": (o + "/out.vcf", "vcf")})

    def phase_ped_nogenetic(o, t):
        return (["phase", "--ped", P["ped"], "--no-genetic-haplotyping", "--recombrate", "10", "--chromosome", C[1 % len(C)],
                 "--chromosome", C[-1]] + fam_common + ["-o", o + "/out.vcf", "--recombination-list", o + "/recomb.tsv"],
                {"vcf": (o + "/out.vcf", "vcf"), "recomb": (o + "/recomb.tsv", "text")})

    def phase_vcf_input(o, t):
        return (["phase", P["vcf"], P["bam"], P["phasedB"], "--reference", P["fa"], "-o", o + "/out.vcf", "--output-read-list",
                 o + "/reads.tsv"], {"vcf": (o + "/out.vcf", "vcf"), "readlist": (o + "/reads.tsv", "text")})

    def phase_supplementary(o, t):
        return (["phase", "--use-supplementary", "--supplementary-distance", "1000", P["vcf"], P["bam_supp"], "--reference",
                 P["fa"], "-o", o + "/out.vcf"], {"vcf": (o + "/out.vcf", "vcf")})

    def genotype_nopriors_ped(o, t):
        return (["genotype", "--no-priors", "--ped", P["ped"], "-H", "6"] + fam_common + ["-o", o + "/out.vcf"],
                {"vcf": (o + "/out.vcf", "vcf")})

    def genotype_nopriors_pedsamples(o, t):
        return (["genotype", "--no-priors", "--ped", P["ped"], "--use-ped-samples", "-H", "6"] + fam_common + ["-o", o + "/out.vcf"],
                {"vcf": (o + "/out.vcf", "vcf")})

    def genotype_ped_prioroutput(o, t):
        return (["genotype", "--ped", P["ped"], "--use-ped-samples", "-H", "6", "--prioroutput", o + "/priors.vcf"] + fam_common +
                ["-o", o + "/out.vcf"], {"vcf": (o + "/out.vcf", "vcf"), "priors": (o + "/priors.vcf", "vcf")})

    def genotype_samples(o, t):
        return (["genotype"] + sample_args(S["SUB"]) + ["--chromosome", C[-1], "--chromosome", C[0], "--gt-qual-threshold", "10",
                 "--affine-gap"] + fam_common + ["-o", o + "/out.vcf"], {"vcf": (o + "/out.vcf", "vcf")})

    def genotype_ignore_rg(o, t):
        return (["genotype", "--ignore-read-groups", "--sample", S["S"][-2], "--only-snvs", "--no-priors"] + fam_common +
                ["-o", o + "/out.vcf"], {"vcf": (o + "/out.vcf", "vcf")})

    def ht(extra, bam=None):
        def f(o, t):
            return (["haplotag", P["phasedA_gz"], bam or P["bam"], "-o", o + "/out.bam", "--output-haplotag-list", o + "/tags.tsv"] +
                    (["--reference", P["fa"]] if "--no-reference" not in extra else []) + extra,
                    {"bam": (o + "/out.bam", "bam"), "taglist": (o + "/tags.tsv", "text")})
        return f

    def pp(extra, vcf=None):
        def f(o, t):
            return (["polyphase", vcf or P["pvcf"], P["pbam"], "--ploidy", P["ploidy"], "-o", o + "/out.vcf", "--reference",
                     P["pfa"], "--threads", t] + extra, {"vcf": (o + "/out.vcf", "vcf")})
        return f
    PC = P["pcontig_names"]

    def compare_only_snvs(o, t):
        return (["compare", "--only-snvs", "--tsv-pairwise", o + "/p.tsv", "--switch-error-bed", o + "/e.bed", "--longest-block-tsv",
                 o + "/lb.tsv", "--sample", c16_inputs.NAMES[1][2], P["phasedA"], P["phasedB"]],
                {"pairwise": (o + "/p.tsv", "text"), "bed": (o + "/e.bed", "text"), "longest": (o + "/lb.tsv", "text"),
                 "stdout": ("<stdout>", "text")})

    def compare_poly(o, t):
        return (["compare", "--ploidy", P["ploidy"], "--tsv-pairwise", o + "/p.tsv", "--sample", P["psamples"][0], "--names",
                 "truth,polyphase", P["pvcf_pre"], P["polyphased"]],
                {"pairwise": (o + "/p.tsv", "text"), "stdout": ("<stdout>", "text")})

    def stats_options(o, t):
        return (["stats", P["phasedB"], "--sample", c16_inputs.NAMES[1][2], "--chr-lengths", P["chrlen"], "--only-snvs",
                 "--chromosome", C[-1], "--chromosome", C[0], "--tsv", o + "/s.tsv", "--block-list", o + "/blocks.tsv", "--gtf",
                 o + "/s.gtf"],
                {"tsv": (o + "/s.tsv", "text"), "blocks": (o + "/blocks.tsv", "text"), "gtf": (o + "/s.gtf", "text"),
                 "stdout": ("<stdout>", "text")})

    def split_options(o, t):
        return (["split", "--add-untagged", "--only-largest-block", "--output-h1", o + "/h1.bam", "--output-h2", o + "/h2.bam",
                 "--read-lengths-histogram", o + "/hist.tsv", P["bam"], P["taglist_gz"]],
                {"h1": (o + "/h1.bam", "bam"), "h2": (o + "/h2.bam", "bam"), "hist": (o + "/hist.tsv", "text")})

    def split_discard(o, t):
        return (["split", "--discard-unknown-reads", "--output-h1", o + "/h1.bam", "--output-h2", o + "/h2.bam",
                 "--output-untagged", o + "/u.bam", "--read-lengths-histogram", o + "/hist.tsv", P["bam"], P["taglist_half"]],
                {"h1": (o + "/h1.bam", "bam"), "h2": (o + "/h2.bam", "bam"), "untagged": (o + "/u.bam", "bam"),
                 "hist": (o + "/hist.tsv", "text")})

    # ---- round 10: exact ties where a maximum / the first of equals is taken ------------------------------------------
    def split_largest_ties(o, t):
        # on every chromosome several phase sets tie for the largest number of tagged reads
        return (["split", "--only-largest-block", "--output-h1", o + "/h1.bam", "--output-h2", o + "/h2.bam", "--output-untagged",
                 o + "/u.bam", "--read-lengths-histogram", o + "/hist.tsv", P["bam"], P["taglist_ties"]],
                {"h1": (o + "/h1.bam", "bam"), "h2": (o + "/h2.bam", "bam"), "untagged": (o + "/u.bam", "bam"),
                 "hist": (o + "/hist.tsv", "text")})

    def split_largest_ties_gz(o, t):
        return (["split", "--only-largest-block", "--add-untagged", "--output-h1", o + "/h1.bam", "--output-h2", o + "/h2.bam",
                 "--read-lengths-histogram", o + "/hist.tsv", P["bam"], P["taglist_ties_gz"]],
                {"h1": (o + "/h1.bam", "bam"), "h2": (o + "/h2.bam", "bam"), "hist": (o + "/hist.tsv", "text")})

    def stats_tied_blocks(o, t):
        # every contig: three blocks with the same number of variants and the same span (largest block, N50, block list)
        return (["stats", P["tieA"], "--chr-lengths", P["chrlen"], "--tsv", o + "/s.tsv", "--block-list", o + "/blocks.tsv", "--gtf",
                 o + "/s.gtf"],
                {"tsv": (o + "/s.tsv", "text"), "blocks": (o + "/blocks.tsv", "text"), "gtf": (o + "/s.gtf", "text"),
                 "stdout": ("<stdout>", "text")})

    def compare_tied_blocks(o, t):
        # the intersection blocks of a contig tie for "longest" and differ in their errors (none / a switch / a flip)
        return (["compare", "--tsv-pairwise", o + "/p.tsv", "--tsv-multiway", o + "/m.tsv", "--switch-error-bed", o + "/e.bed",
                 "--longest-block-tsv", o + "/lb.tsv", "--names", "a,b,c", P["tieA"], P["tieB"], P["tieA"]],
                {"pairwise": (o + "/p.tsv", "text"), "multiway": (o + "/m.tsv", "text"), "bed": (o + "/e.bed", "text"),
                 "longest": (o + "/lb.tsv", "text"), "stdout": ("<stdout>", "text")})

    def haplotagphase_options(o, t):
        return (["haplotagphase", "-o", o + "/out.vcf", "--reference", P["fa"], "--chromosome", C[-1], "--chromosome", C[0],
                 "--gap-threshold", "50", "--cut-poly", "5", P["phasedA_gz"], P["tagged"]], {"vcf": (o + "/out.vcf", "vcf")})

    def haplotagphase_ignore_rg(o, t):
        return (["haplotagphase", "-o", o + "/out.vcf", "--reference", P["fa"], "--ignore-read-groups", "--no-mav",
                 P["single0_gz"], P["tagged"]], {"vcf": (o + "/out.vcf", "vcf")})

    def unphase_ped(o, t):
        return (["unphase", P["phasedB"]], {"vcf": ("<stdout>", "vcf")})

    subs = collections.OrderedDict()

    def add(name, builder, thread_opts=(None,), sets=("S",), light=False, thorough_only=False):
        if thorough_only and quick and not (only and name in only):
            return
        subs[name] = (builder, list(thread_opts), {"sets": list(sets), "light": light})
    add("phase", phase)
    add("phase-ped", phase_ped, sets=("PED", "T0", "T1"))
    add("phase-ped-lists", phase_ped_lists)
    add("genotype", genotype, sets=("S", "INFO"))
    add("genotype-ped", genotype_ped, sets=("PED", "T0", "T1"), thorough_only=True)
    add("polyphase", polyphase, [1, 2, 3, 4], sets=("POLY",))
    add("polyphase-prephasing", polyphase_pre, [1, 2], sets=("POLY",))
    add("polyphase-prephasing-last", polyphase_pre2, [2, 1], sets=("POLY",), light=True)
    add("haplotag", haplotag, [1, 2, 3, 4])
    add("haplotag-regions", haplotag_regions)
    add("unphase", unphase)
    add("stats", stats)
    add("compare", compare)
    if len(P.get("singles", [])) == 3:
        add("compare-ignore-names", compare_ignore, sets=("HT3", "S"))
    add("split", split)
    add("haplotagphase", haplotagphase)
    # option variants
    add("phase-heuristic", phase_algo("heuristic"), light=True)
    add("phase-hapchat", phase_algo("hapchat"), light=True)
    add("phase-heuristic-ped1", phase_heuristic_ped1, sets=("T0",), light=True)
    add("phase-pedsamples-lists", phase_pedsamples_lists, sets=("T0", "T1", "PED"), light=True)
    add("phase-samples", phase_samples, sets=("SUB", "S"), light=True)
    add("phase-merge-reads", phase_merge_reads, light=True)
    add("phase-ignore-rg", phase_ignore_rg, light=True)
    add("phase-ped-nogenetic", phase_ped_nogenetic, sets=("S", "T0", "T1"), light=True)
    add("phase-vcf-input", phase_vcf_input, light=True, thorough_only=True)
    add("phase-supplementary", phase_supplementary, light=True, thorough_only=True)
    add("genotype-nopriors-ped", genotype_nopriors_ped, sets=("T0", "T1", "S"), light=True)
    add("genotype-nopriors-pedsamples", genotype_nopriors_pedsamples, sets=("T0", "T1", "PED"), light=True)
    add("genotype-ped-prioroutput", genotype_ped_prioroutput, sets=("T0", "T1", "PED"), light=True)
    add("genotype-samples", genotype_samples, sets=("SUB",), light=True)
    add("genotype-ignore-rg", genotype_ignore_rg, light=True)
    add("haplotag-ignore-rg-samples", ht(["--ignore-read-groups"] + sample_args(S["HT3"])), sets=("HT3",), light=True)
    add("haplotag-ignore-rg-linked", ht(["--ignore-read-groups", "--tag-supplementary"] + sample_args(S["HT2"]), P["bam_supp"]),
        sets=("HT2",), light=True)
    add("haplotag-supplementary", ht(["--tag-supplementary", "--output-threads", "2"], P["bam_supp"]), light=True)
    add("haplotag-samples", ht(["--ignore-linked-read"] + sample_args(S["HT3"]), P["bam_supp"]), sets=("HT3", "S"), light=True)
    add("haplotag-noref", ht(["--no-reference", "--skip-missing-contigs", "--linked-read-distance-cutoff", "50"], P["bam_supp"]),
        light=True, thorough_only=True)
    add("polyphase-distrust-haploid", pp(["--distrust-genotypes", "--include-haploid-sets"]), [1, 2], sets=("POLY",), light=True)
    add("polyphase-samples", pp(["--sample", P["psamples"][-1], "--sample", P["psamples"][0], "--chromosome", PC[-1], "--chromosome",
                                 PC[0], "--no-mav"]), [2, 1], sets=("POLY",), light=True)
    add("polyphase-options", pp(["--ce-bundle-edges", "--min-overlap", "1", "--tag", "HP", "--verify-genotypes"]), [1, 2],
        sets=("POLY",), light=True)
    add("polyphase-prephasing-distrust", pp(["--use-prephasing", "--distrust-genotypes"], P["pvcf_pre"]), [1, 2], sets=("POLY",),
        light=True, thorough_only=True)
    add("compare-only-snvs", compare_only_snvs, light=True)
    add("compare-poly", compare_poly, sets=("POLY",), light=True)
    add("stats-options", stats_options, light=True)
    add("split-options", split_options, light=True)
    add("split-discard", split_discard, light=True)
    add("haplotagphase-options", haplotagphase_options, light=True)
    if P.get("ties"):
        add("split-largest-ties", split_largest_ties, sets=("TIE0", "TIE1", "TIE2"), light=True)
        add("split-largest-ties-gz", split_largest_ties_gz, sets=("TIE0", "TIE1", "TIE2"), light=True)
    if P.get("n_tie_contigs"):
        add("stats-tied-blocks", stats_tied_blocks, light=True)
        add("compare-tied-blocks", compare_tied_blocks, light=True)
    if P.get("single0_gz"):
        add("haplotagphase-ignore-rg", haplotagphase_ignore_rg, light=True, thorough_only=True)
    add("unphase-ped-phased", unphase_ped, light=True)
    return subs


def seeds_for(P, meta, quick):
    """the hash seeds of one subcommand: the pattern of the tier with every "C" replaced by the next covering seed of the
    name sets this subcommand iterates over"""
    if meta.get("light"):
        pattern = SEEDS_LIGHT_QUICK if quick else SEEDS_LIGHT_THOROUGH
    else:
        pattern = SEEDS_QUICK if quick else SEEDS_THOROUGH
    ids = [list(P["sets"]).index(k) for k in meta.get("sets", ["S"])]
    cover = c16_inputs.covering_seeds(P["probed"], ids, 1 + pattern.count("C"))[1:] if P.get("probed") else []
    cover = cover + [str(i) for i in range(1, 1 + pattern.count("C"))]       # fallback: 1, 2, 3, ...
    out, k = [], 0
    for s in pattern:
        if s == "C":
            out.append(cover[k]); k += 1
        else:
            out.append(s)
    return out


def run_variant(ctx, builder, d, tag, seed, threads, keep=False):
    o = os.path.join(d, "run_" + tag)
    os.makedirs(o, exist_ok=True)
    args, outs = builder(o, threads if threads is not None else 1)
    rc, so, se, _ = sim.whatshap(args, ctx.overlay, env_extra={"PYTHONHASHSEED": seed}, timeout=900)
    views = {}
    if rc != 0:
        if not keep:
            shutil.rmtree(o, ignore_errors=True)
        return rc, (se.strip().splitlines() or [""])[-1][:300], views
    for label, (path, kind) in outs.items():
        if path == "<stdout>":
            views[label] = vcf_view(so) if kind == "vcf" else text_view(so)
        elif os.path.exists(path):
            views[label] = load(path, kind)
        else:
            views[label] = None
    if not keep:
        shutil.rmtree(o, ignore_errors=True)
    return rc, "", views


PHASE_TAGS = ("HP:", "PC:", "PS:")


def only_phase_tags_differ(a, b, kind):
    """two record lists (BAM records as text / haplotag list rows) that agree in everything but the haplotype assignment"""
    if len(a) != len(b):
        return False
    for x, y in zip(a, b):
        if x == y:
            continue
        fx, fy = x.split("\t"), y.split("\t")
        if kind == "bam":
            if fx[:11] != fy[:11] or sorted(t for t in fx[11:] if not t.startswith(PHASE_TAGS)) != sorted(
                    t for t in fy[11:] if not t.startswith(PHASE_TAGS)):
                return False
        elif len(fx) != 4 or len(fy) != 4 or (fx[0], fx[3]) != (fy[0], fy[3]):
            return False
    return True


def only_gl_rounding_differs(a, b):
    """two lists of genotype VCF records that agree in everything but the last digits of GL values (same GT and GQ)"""
    if len(a) != len(b):
        return False
    for x, y in zip(a, b):
        if x == y:
            continue
        fx, fy = x.split("\t"), y.split("\t")
        if fx[:9] != fy[:9] or len(fx) != len(fy) or "GL" not in fx[8].split(":"):
            return False
        g = fx[8].split(":").index("GL")
        for cx, cy in zip(fx[9:], fy[9:]):
            px, py = cx.split(":"), cy.split(":")
            if len(px) != len(py) or px[:g] + px[g + 1:] != py[:g] + py[g + 1:]:
                return False
            vx, vy = px[g].split(","), py[g].split(",")
            if len(vx) != len(vy):
                return False
            for u, v in zip(vx, vy):
                if u == v:
                    continue
                try:
                    u, v = float(u), float(v)
                except ValueError:
                    return False
                if abs(u - v) > 1e-9 and abs(u - v) > 1e-3 * max(abs(u), abs(v)):
                    return False
    return True


def finding_key(name, label, bv, vv):
    """a specific key for the known hash-seed dependencies of the unchanged code; None = anything else"""
    if name == "compare-ignore-names" and label == "multiway" and len(bv) == len(vv) and all(
            x.split("\t")[1:] == y.split("\t")[1:] for x, y in zip(bv, vv)):
        return K_F47      # only the sample column differs: "_".join(set(sample_names))
    if name.startswith("haplotag-ignore-rg") and label in ("bam", "taglist") and only_phase_tags_differ(
            bv, vv, "bam" if label == "bam" else "list"):
        return K_F110     # read groups ignored, several --sample: the sample iterated last decides every read
    if name.startswith("genotype") and label in ("vcf", "priors") and only_gl_rounding_differs(bv, vv):
        return K_FC16A    # family members in frozenset order -> numeric ids -> order of the floating point sums of the DP
    if name == "phase-pedsamples-lists" and label == "gtchanges" and sorted(bv) == sorted(vv):
        return K_F112     # same rows, the rows of one record in family-member order = list(set) of the PED samples
    return None


def variants_of(P, name, thread_opts, meta, quick):
    seeds = seeds_for(P, meta, quick)
    variants = [(s, thread_opts[i % len(thread_opts)]) for i, s in enumerate(seeds)]
    if len(thread_opts) > 1:
        # every thread count at the baseline seed as well
        variants += [("0", t) for t in thread_opts[1:]]
    if not (meta.get("light") and quick):
        # literal repetition: the same command once more with the same output paths (the files of the first run exist)
        variants.insert(1, (variants[0][0], variants[0][1]))
        rep = 1
    else:
        rep = None
    return variants, rep


def explore(ctx, case, only=None):
    d = os.path.join(ctx.workdir(), "c16")
    shutil.rmtree(d, ignore_errors=True)
    os.makedirs(d)
    try:
        P = prepare_inputs(ctx, case, d)
        digest = case.get("digest", "")
        if not only or "bam-order" in only:
            bam_order_check(ctx, case, P, d)
        plan = []
        for name, (builder, thread_opts, meta) in subcommands(P, ctx.quick, only).items():
            if only and name not in only:
                continue
            variants, rep = variants_of(P, name, thread_opts, meta, ctx.quick)
            plan.append((name, builder, variants, rep))
        # all runs are independent processes: executed by a small pool; the literal repetition follows its baseline run
        results = {}

        def chain(name, builder, variants, rep):
            seed, threads = variants[0]
            out = {0: run_variant(ctx, builder, d, f"{name}_0", seed, threads, keep=True)}
            if rep is not None:
                out[rep] = run_variant(ctx, builder, d, f"{name}_0", variants[rep][0], variants[rep][1], keep=True)
            shutil.rmtree(os.path.join(d, f"run_{name}_0"), ignore_errors=True)
            return out

        with ThreadPoolExecutor(max_workers=JOBS) as ex:
            futs = []
            for name, builder, variants, rep in plan:
                futs.append((name, None, ex.submit(chain, name, builder, variants, rep)))
            for name, builder, variants, rep in plan:
                for vi, (seed, threads) in enumerate(variants):
                    if vi == 0 or vi == rep:
                        continue
                    futs.append((name, vi, ex.submit(run_variant, ctx, builder, d, f"{name}_{vi}", seed, threads)))
            for name, vi, fut in futs:
                r = fut.result()
                if vi is None:
                    for k, v in r.items():
                        results[(name, k)] = v
                else:
                    results[(name, vi)] = r
        for name, builder, variants, rep in plan:
            compare_runs(ctx, case, name, variants, rep, results, digest)
            if name == "split-largest-ties":
                ok = [vi for vi in range(len(variants)) if results[(name, vi)][0] == 0]
                if ok:
                    largest_block_correspondence(ctx, dict(case, only=[name]), P["tie_rows"], results[(name, ok[0])][2], digest)
    finally:
        shutil.rmtree(d, ignore_errors=True)


def compare_runs(ctx, case, name, variants, rep, results, digest, sub_case=None):
    def vdesc_of(vi):
        seed, threads = variants[vi]
        return f"PYTHONHASHSEED={seed}" + (f" threads={threads}" if threads is not None else "") + (" (repeated)" if vi == rep else "")
    sub_case = sub_case or dict(case, only=[name])
    ok_runs = [vi for vi in range(len(variants)) if results[(name, vi)][0] == 0]
    if not ok_runs:
        # not a question of this property: the command fails whatever the seed
        ctx.observe(f"{name}: fails under every variant: {results[(name, 0)][1]}")
        return
    ref = ok_runs[0]              # the reference run: the baseline, or the first run that succeeded
    base_views = results[(name, ref)][2]
    base_desc = vdesc_of(ref)
    for vi in range(len(variants)):
        if vi == ref:
            continue
        rc, err, views = results[(name, vi)]
        vdesc = vdesc_of(vi)
        ctx.evaluated()
        ctx.dist("subcommand", name)
        ctx.dist("variant", vdesc)
        if rc != 0:
            key = f"{name}:crash-under-variant"
            if name == "phase-heuristic-ped1" and "AssertionError" in err:
                key = K_F111      # family members in list(set) order, super-reads in numeric-id order
            ctx.fail(f"{name}: run under {vdesc} failed ({err}) while {base_desc} succeeded", sub_case, key=key)
            ctx.nontrivial(f"{name}|{vdesc}|{vi}|{digest}")
            continue
        nontrivial = False
        for label, bv in base_views.items():
            vv = views.get(label)
            if bv is None or vv is None:
                if bv != vv:
                    ctx.fail(f"{name}: output {label} written under {base_desc} xor {vdesc}", sub_case,
                             key=f"{name}:{label}:missing")
                continue
            if bv[1] != vv[1]:
                key = finding_key(name, label, bv[1], vv[1]) or f"{name}:{label}:records"
                ctx.fail(f"{name}: {label} records differ between {base_desc} and {vdesc}: {first_diff(bv[1], vv[1])}",
                         sub_case, key=key)
            elif bv[0] != vv[0]:
                if collections.Counter(bv[0]) == collections.Counter(vv[0]):
                    ctx.observe(f"{name}: order of header lines of {label} depends on the run (F6); records identical")
                else:
                    ctx.fail(f"{name}: {label} header lines differ between {base_desc} and {vdesc}: "
                             f"{sorted(set(bv[0]) ^ set(vv[0]))[:4]}", sub_case, key=f"{name}:{label}:header")
            if bv[1]:
                nontrivial = True
        if nontrivial:
            ctx.nontrivial(f"{name}|{vdesc}|{vi}|{digest}")
    ctx.sample({"subcommand": name, "variants": [f"{s}/{t}" for s, t in variants],
                "records": {k: (len(v[1]) if v else None) for k, v in base_views.items()}})


# ------------------------------------------------------------------------------------------------
# round 10: `split --only-largest-block` with phase sets that TIE for the largest number of tagged reads
# ------------------------------------------------------------------------------------------------

def kept_reads(views):
    names = set()
    for label in ("h1", "h2"):
        if views.get(label):
            names |= {r.split("\t", 1)[0] for r in views[label][1]}
    return names


def largest_block_correspondence(ctx, case, rows, views, digest):
    """the reads one run kept in the H1/H2 outputs vs the Lean model of `process_haplotag_list_file` +
    `select_reads_in_largest_phased_blocks` (`c16.largest`: Counter in first-occurrence order, most_common(1))"""
    ids = {}

    def num(kind, x):
        return ids.setdefault((kind, x), len(ids))
    hapnum = {"none": 0, "H1": 1, "H2": 2}
    rows = [r for r in rows if r[1] in hapnum]
    req = {"op": "c16.largest", "rows": [[num("r", r[0]), hapnum[r[1]], num("p", r[2]), num("c", r[3])] for r in rows]}
    ans = ctx.model.ask_many([req])[0]
    back = {v: k[1] for k, v in ids.items()}
    model_sel = sorted({back[i] for i in ans["selected"]})
    chosen, admissible = c16_ties.largest_block_oracle(rows)
    model_blocks = {back[c]: (back[b], n) for c, b, n in ans["blocks"]}
    ctx.evaluated()
    ctx.dist("subcommand", "split-largest-ties:model")
    if model_blocks != chosen:
        ctx.disagree("c16.largest:oracle", case, {k: list(v) for k, v in chosen.items()}, {k: list(v) for k, v in model_blocks.items()})
    impl = sorted(kept_reads(views))
    if impl != model_sel:
        ctx.disagree("c16.largest", case, impl[:40], model_sel[:40])
    n_tied = sum(len(a) > 1 for a in admissible.values())
    ctx.dist("largest_block_tied_chromosomes", n_tied)
    if n_tied and impl:
        ctx.nontrivial(f"split-largest-ties:model|{digest}")


def split_ties_case(rng):
    """a small haplotag list (+ read lengths for an unaligned BAM) in which, on every chromosome, k phase sets have exactly the
    same largest number of tagged rows; some smaller phase set, some untagged rows"""
    rows, rid = [], 0
    for ci in range(rng.choice([1, 2, 2, 3])):
        chrom = f"chr{ci + 1}"
        k, m = rng.choice([2, 3, 4]), rng.choice([1, 2, 3])
        names = [str(int(x) + 7 * ci) for x in rng.sample(c16_ties.PS_NAMES, k + 1)]
        slots = [t for t in names[:k] for _ in range(m)]
        rng.shuffle(slots)
        for _ in range(rng.randrange(0, m)):
            slots.insert(rng.randrange(len(slots) + 1), names[k])
        for j, ps in enumerate(slots):
            rid += 1
            rows.append([f"r{rid}", "H1" if rng.random() < 0.5 else "H2", ps, chrom, 40 + 10 * names.index(ps) + j % 3])
        for _ in range(rng.randrange(0, 3)):
            rid += 1
            rows.append([f"r{rid}", "none", "none", chrom, 90 + rid % 5])
    return {"kind": "split-ties", "rows": rows, "digest": str(rng.randrange(10**9))}


def check_split_ties(ctx, case, n_seeds=None):
    """`split --only-largest-block` on a small unaligned BAM + haplotag list with tied phase sets, under hash seeds that
    enumerate the tied names in different orders; all outputs must be identical (the property), and the kept reads are
    compared with the Lean model"""
    n_seeds = n_seeds or (6 if ctx.quick else 12)
    rows = case["rows"]
    d = os.path.join(ctx.workdir(), "c16ties")
    shutil.rmtree(d, ignore_errors=True)
    os.makedirs(d)
    try:
        bam, lst = os.path.join(d, "reads.bam"), os.path.join(d, "tags.tsv")
        with pysam.AlignmentFile(bam, "wb", header={"HD": {"VN": "1.6", "SO": "unsorted"}}) as f:
            for name, _, _, _, length in rows:
                a = pysam.AlignedSegment(f.header)
                a.query_name, a.flag = name, 4
                a.query_sequence = ("ACGT" * (length // 4 + 1))[:length]
                a.query_qualities = pysam.qualitystring_to_array("I" * length)
                f.write(a)
        with open(lst, "w") as f:
            f.write("#readname\thaplotype\tphaseset\tchromosome\n")
            for r in rows:
                f.write("\t".join(r[:4]) + "\n")
        chosen, admissible = c16_ties.largest_block_oracle([tuple(r[:4]) for r in rows])
        name_sets = [sorted(a) for a in admissible.values() if len(a) > 1]
        probed = c16_inputs.probe_orders(name_sets, SEED_POOL, sim.PY) if name_sets else {}
        seeds = c16_inputs.covering_seeds(probed, list(range(len(name_sets))), n_seeds) if probed else ["0"]
        seeds += [str(i) for i in range(1, 50) if str(i) not in seeds][:n_seeds - len(seeds)]

        def builder(o, t):
            return (["split", "--only-largest-block", "--output-h1", o + "/h1.bam", "--output-h2", o + "/h2.bam",
                     "--output-untagged", o + "/u.bam", "--read-lengths-histogram", o + "/hist.tsv", bam, lst],
                    {"h1": (o + "/h1.bam", "bam"), "h2": (o + "/h2.bam", "bam"), "untagged": (o + "/u.bam", "bam"),
                     "hist": (o + "/hist.tsv", "text")})
        with ThreadPoolExecutor(max_workers=JOBS) as ex:
            runs = list(ex.map(lambda s_: run_variant(ctx, builder, d, f"ties_{s_}", s_, None), seeds))
        results = {("split-largest-ties", vi): r for vi, r in enumerate(runs)}
        variants = [(s_, None) for s_ in seeds]
        compare_runs(ctx, case, "split-largest-ties", variants, None, results, case.get("digest", ""), sub_case=case)
        ok = [r for r in runs if r[0] == 0]
        if ok:
            largest_block_correspondence(ctx, case, [tuple(r[:4]) for r in rows], ok[0][2], case.get("digest", ""))
    finally:
        shutil.rmtree(d, ignore_errors=True)


# ------------------------------------------------------------------------------------------------
# in-process: ReadSet.sort is a function of the set of reads
# ------------------------------------------------------------------------------------------------

def readset_sort_case(rng):
    n = rng.randrange(2, 12)
    reads = []
    for i in range(n):
        nv = rng.choice([0, 1, 2, 3])
        first = rng.choice([10, 10, 20, 30, 40])
        reads.append({"name": rng.choice(["r", "read", "q", "zz"]) + str(i if rng.random() < 0.8 else i // 2),
                      "source": rng.randrange(0, 3), "nv": nv, "first": first})
    # (name, source) must be unique in a ReadSet
    seen, out = set(), []
    for r in reads:
        if (r["name"], r["source"]) not in seen:
            seen.add((r["name"], r["source"])); out.append(r)
    return {"kind": "readsort", "reads": out, "orders": [rng.sample(range(len(out)), len(out)) for _ in range(4)]}


def check_readsort(ctx, case):
    from whatshap.core import Read, ReadSet
    results = []
    for order in [list(range(len(case["reads"])))] + case["orders"]:
        rs = ReadSet()
        for i in order:
            r = case["reads"][i]
            rd = Read(r["name"], 60, r["source"])
            for j in range(r["nv"]):
                rd.add_variant(r["first"] + 5 * j, j % 2, 30)
            rs.add(rd)
        rs.sort()
        results.append([(rd.name, rd.source_id) for rd in rs])
    ctx.evaluated()
    if any(r != results[0] for r in results):
        ctx.fail(f"ReadSet.sort depends on insertion order: {results[0]} vs {[r for r in results if r != results[0]][0]}",
                 case, key="readset-sort-order")
    # the part of the comparator that does not involve std::hash: no-variant reads first, then by first position
    key = {(r["name"], r["source"]): (r["nv"] > 0, r["first"] if r["nv"] > 0 else 0) for r in case["reads"]}
    ks = [key[x] for x in results[0]]
    if ks != sorted(ks):
        ctx.fail(f"ReadSet.sort order {results[0]} is not (no-variant first, first position)", case, key="readset-sort-prefix")
    firsts = [r["first"] for r in case["reads"] if r["nv"] > 0]
    if len(firsts) != len(set(firsts)):
        ctx.nontrivial("readsort" + json.dumps(case, sort_keys=True))
    return results[0]



# ------------------------------------------------------------------------------------------------
# read selection after ReadSet.sort: a function of the SET of reads (Props.C16.selection_outcomes_order_independent)
# ------------------------------------------------------------------------------------------------

def selection_case(rng):
    """a few reads over a handful of variant positions, several sharing their first position (ties of the comparator up to
    std::hash) and several with equal scores (ties of the priority queue); unique (name, source id)"""
    n = rng.randrange(2, 8)
    grid = [10, 20, 30, 40, 50, 60]
    reads, seen = [], set()
    for i in range(n):
        if reads and rng.random() < 0.3:
            base = rng.choice(reads)        # a twin: same variants, another name
            pos, qual = list(base["pos"]), list(base["qual"])
        else:
            a = rng.randrange(0, len(grid) - 1)
            span = grid[a:a + rng.choice([2, 2, 3, 4])]
            pos = [p for j, p in enumerate(span) if j in (0, len(span) - 1) or rng.random() < 0.7]
            qual = [rng.choice([10, 30, 30, 30]) for _ in pos]
        name = rng.choice(["r", "read", "q"]) + str(i)
        src = rng.randrange(0, 2)
        if (name, src) in seen:
            continue
        seen.add((name, src))
        reads.append({"name": name, "source": src, "pos": pos, "qual": qual})
    if rng.random() < 0.05:
        reads[0]["pos"], reads[0]["qual"] = reads[0]["pos"][:1], reads[0]["qual"][:1]      # ValueError: a single variant
    pref = rng.choice([None, None, [0], [1]])
    return {"kind": "selection", "reads": reads, "k": rng.choice([1, 1, 2, 3]), "preferred": pref,
            "orders": [rng.sample(range(len(reads)), len(reads)) for _ in range(3)]}


def check_selection(ctx, case):
    """returns (request for c16.select, what the implementation did) or None"""
    from whatshap.core import Read, ReadSet
    from whatshap.readselect import readselection
    reads = case["reads"]
    results = []
    for order in [list(range(len(reads)))] + case["orders"]:
        rs = ReadSet()
        for i in order:
            r = reads[i]
            rd = Read(r["name"], 60, r["source"])
            for p_, q in zip(r["pos"], r["qual"]):
                rd.add_variant(p_, 0, q)
            rs.add(rd)
        rs.sort()
        names = [(rd.name, rd.source_id) for rd in rs]
        try:
            with contextlib.redirect_stdout(io.StringIO()):      # readselection prints the offending read
                sel = readselection(rs, case["k"], set(case["preferred"]) if case["preferred"] is not None else None)
            out = sorted(names[i] for i in sel)
        except ValueError:
            out = "ValueError"
        results.append((names, out))
    ctx.evaluated()
    ctx.dist("selection_reads", len(reads))
    if any(r != results[0] for r in results):
        other = [r for r in results if r != results[0]][0]
        ctx.fail(f"read selection after ReadSet.sort depends on the order the reads were added: {results[0][1]} vs {other[1]} "
                 f"(sorted read sets {results[0][0]} / {other[0]})", case, key="selection-insertion-order")
    names, out = results[0]
    firsts = [r["pos"][0] for r in reads]
    if len(firsts) != len(set(firsts)) and out != "ValueError" and len(out) < len(reads):
        ctx.nontrivial("selection" + json.dumps(case, sort_keys=True))
    # the model: the same reads in the last insertion order; std::hash is replaced by the rank the implementation's own
    # sort gave to (name, source id)
    rank = {ns: i for i, ns in enumerate(names)}
    order = case["orders"][-1] if case["orders"] else list(range(len(reads)))
    req = {"op": "c16.select", "k": case["k"], "bridging": True,
           "reads": [[1, reads[i]["pos"][0], rank[(reads[i]["name"], reads[i]["source"])], [ord(ch) for ch in reads[i]["name"]],
                      reads[i]["source"], reads[i]["pos"], reads[i]["qual"],
                      int(case["preferred"] is not None and reads[i]["source"] in case["preferred"])] for i in order]}
    impl = "ValueError" if out == "ValueError" else sorted(rank[x] for x in out)
    return req, [[n, s_] for n, s_ in names], impl


def bam_order_inputs(P, d, seed):
    """the family BAM with twin alignments (same start, other name) and (a) the records of every start position in
    another order, (b) split into two files.  Returns dict of paths, whether read names are unique, #positions shared"""
    import random
    rng = random.Random(seed)
    src = pysam.AlignmentFile(P["bam"])
    header = src.header
    recs = []
    for r in src:
        recs.append(r)
        if not r.is_unmapped and rng.random() < 0.35:
            dct = r.to_dict()
            dct["name"] = r.query_name + "_t"
            recs.append(pysam.AlignedSegment.from_dict(dct, header))
    src.close()
    groups = collections.OrderedDict()
    for r in recs:
        groups.setdefault((r.reference_id, r.reference_start), []).append(r)
    perm = []
    for g in groups.values():
        g2 = list(g)
        if len(g2) > 1:
            while g2 == g:
                rng.shuffle(g2)
        perm += g2
    out = {}
    for label, rr in (("twin", recs), ("perm", perm), ("a", recs[0::2]), ("b", recs[1::2])):
        path = os.path.join(d, f"order_{label}.bam")
        with pysam.AlignmentFile(path, "wb", header=header) as f:
            for r in rr:
                f.write(r)
        pysam.index(path)
        out[label] = path
    keys = [(r.query_name, r.is_read1, r.is_read2, r.is_supplementary, r.is_secondary) for r in recs]
    return out, len(keys) == len(set(keys)) and len({r.query_name for r in recs}) == len(recs), sum(len(g) > 1 for g in groups.values())


def bam_order_check(ctx, case, P, d):
    """metamorphic: the same alignments delivered in another order (records of one start position permuted; split over two
    files given in either order).  `ReadSet.sort` canonicalises the read order when (name, source id) is unique, so the
    record order must not matter; the file order changes the source ids (part of the sort key) and is reported only."""
    B, unique, shared = bam_order_inputs(P, d, int(case.get("digest") or 0))
    ctx.dist("bam_order_shared_starts", min(shared, 20))

    def run(tag, sub, bams):
        o = os.path.join(d, "run_order_" + tag)
        os.makedirs(o, exist_ok=True)
        if sub == "phase":
            # a low cap: the read selection has to drop reads, twins tie in its priority queue
            args = ["phase", P["vcf"]] + bams + ["-o", o + "/out.vcf", "--reference", P["fa"], "--output-read-list", o + "/reads.tsv",
                    "--internal-downsampling", "4"]
            outs = {"vcf": (o + "/out.vcf", "vcf"), "readlist": (o + "/reads.tsv", "text")}
        else:
            args = ["genotype", P["vcf"]] + bams + ["-o", o + "/out.vcf", "--reference", P["fa"]]
            outs = {"vcf": (o + "/out.vcf", "vcf")}
        rc, so, se, _ = sim.whatshap(args, ctx.overlay, env_extra={"PYTHONHASHSEED": "0"}, timeout=900)
        views = {k: (load(p_, kind) if rc == 0 and os.path.exists(p_) else None) for k, (p_, kind) in outs.items()}
        shutil.rmtree(o, ignore_errors=True)
        return rc, (se.strip().splitlines() or [""])[-1][:300], views

    for sub in ("phase", "genotype"):
        rc0, err0, base = run(sub + "_twin", sub, [B["twin"]])
        if rc0 != 0:
            ctx.observe(f"{sub}: baseline run on the BAM with twin reads failed: {err0}")
            continue
        rc1, err1, perm = run(sub + "_perm", sub, [B["perm"]])
        ctx.evaluated()
        ctx.dist("subcommand", sub + "-bam-record-order")
        sub_case = dict(case, only=["bam-order"])
        if rc1 != 0:
            ctx.fail(f"{sub}: fails when the BAM records of one start position come in another order ({err1})", sub_case,
                     key=f"{sub}:bam-record-order:crash")
        else:
            for label, bv in base.items():
                vv = perm.get(label)
                if bv is None or vv is None or bv[1] != vv[1]:
                    msg = (f"{sub}: {label} records differ when the BAM records of one start position come in another order: "
                           f"{first_diff(bv[1], vv[1]) if bv and vv else 'missing output'}")
                    if unique:
                        ctx.fail(msg, sub_case, key=f"{sub}:bam-record-order:{label}")
                    else:
                        ctx.observe(msg + " (read names not unique)")
            if shared and base.get("vcf") and base["vcf"][1]:
                ctx.nontrivial(f"{sub}-bam-order|{case.get('digest', '')}")
        # input file order: source ids (part of the read order) change with it; reported, not demanded
        rca, erra, ab = run(sub + "_ab", sub, [B["a"], B["b"]])
        rcb, errb, ba = run(sub + "_ba", sub, [B["b"], B["a"]])
        ctx.evaluated()
        ctx.dist("subcommand", sub + "-bam-file-order")
        if rca != 0 or rcb != 0:
            if (rca == 0) != (rcb == 0):
                ctx.fail(f"{sub}: succeeds with the two BAM files in one order and fails in the other ({erra or errb})", sub_case,
                         key=f"{sub}:bam-file-order:crash")
            continue
        if any((ab[l] or [None, None])[1] != (ba[l] or [None, None])[1] for l in ab if l != "readlist"):
            ctx.observe(f"{sub}: the result depends on the order in which two BAM files are given (source ids enter "
                        "ReadSet.sort's key and thereby the tie-breaking of the read selection)")
        else:
            ctx.observe(f"{sub}: same records with two BAM files given in either order")

# ------------------------------------------------------------------------------------------------

GAP_FRAC = 0.3


def prephasing_can_matter(poly):
    """the first and the last sample have at least two heterozygous variants on either side of the coverage gap of the first contig:
    the reads give two blocks there and the pre-phased stretch across the gap (prepare_inputs) joins them, so that a run
    that uses the pre-phasing of this sample and one that does not differ"""
    name = list(poly.contigs)[0]
    gap_at = int(len(poly.contigs[name]) * GAP_FRAC)
    for s0 in (poly.samples[0], poly.samples[-1]):
        left = right = 0
        for i, v in enumerate(poly.variants[name]):
            col = [h[i] for h in poly.haps[f"{s0}|{name}"]]
            if len(set(col)) > 1:
                if v["pos"] < gap_at:
                    left += 1
                else:
                    right += 1
        if left < 2 or right < 2:
            return False
    return True


def gen_input(rng, quick, scale=1):
    fam = c16_inputs.family_scenario(rng, n_contigs=3, n_variants=(4, 7) if quick else (5, 10 * scale))
    k = rng.choice([3, 4])
    for attempt in range(30):
        poly = c15_poly.PolyScenario.generate(rng, ploidy=k, n_contigs=2, n_variants=(10, 14) if quick else (10, 16),
                                              cov_per_hap=(3, 6), gap_frac=GAP_FRAC, samples=("P1", "P2"))
        if prephasing_can_matter(poly):
            break
    inp = {"family": fam.as_case(), "poly": poly.as_case()}
    return {"kind": "explore", "input": inp, "digest": str(rng.randrange(10**9))}


def run_selection_batch(ctx, cases):
    batch = [(c, check_selection(ctx, c)) for c in cases]
    answers = ctx.model.ask_many([b[1][0] for b in batch])
    for (case, (req, names, impl)), ans in zip(batch, answers):
        model_sorted = [["".join(chr(c) for c in name), src] for name, src in ans["sorted"]]
        if model_sorted != names:
            ctx.disagree("c16.select:sorted", case, names, model_sorted)
        elif impl not in ans["outcomes"]:
            ctx.disagree("c16.select", case, impl, ans["outcomes"])
        else:
            ctx.dist("selection_admissible_outcomes", min(len(ans["outcomes"]), 5))


def run(ctx):
    rng = ctx.rng
    if ctx.replay:
        case = json.load(open(ctx.replay))["case"]
        if case.get("kind") == "readsort":
            check_readsort(ctx, case)
        elif case.get("kind") == "selection":
            run_selection_batch(ctx, [case])
        elif case.get("kind") == "split-ties":
            check_split_ties(ctx, case)
        else:
            explore(ctx, case, only=case.get("only"))
        shutil.rmtree(ctx.workdir(), ignore_errors=True)
        return
    for _, c in ctx.corpus():
        if c.get("kind") == "explore-gen":
            # a generated input named by its generator seed (the whole input would be some 100 kB) and the subcommands to run
            import random
            c = dict(gen_input(random.Random(c["gen_seed"]), True, 1), only=c.get("only"))
        if c.get("kind") == "readsort":
            check_readsort(ctx, c)
        elif c.get("kind") == "selection":
            run_selection_batch(ctx, [c])
        elif c.get("kind") == "split-ties":
            check_split_ties(ctx, c)
        else:
            explore(ctx, c, only=c.get("only"))
    # in-process
    batch = []
    for i in range((300 if ctx.quick else 3000) * ctx.scale):
        case = readset_sort_case(rng)
        order = check_readsort(ctx, case)
        # model correspondence where the order does not depend on std::hash: all (hasVariants, first) classes distinct
        cls = [(r["nv"] > 0, r["first"] if r["nv"] > 0 else 0) for r in case["reads"]]
        if len(set(cls)) == len(cls):
            batch.append(({"op": "c16.sort", "reads": [[int(r["nv"] > 0), r["first"], 0, [ord(ch) for ch in r["name"]],
                                                        r["source"]] for r in case["reads"]]},
                          case, [[n, s] for n, s in order]))
    if batch:
        answers = ctx.model.ask_many([b[0] for b in batch])
        for (req, case, impl), ans in zip(batch, answers):
            model = [["".join(chr(c) for c in name), src] for name, src in ans]
            if model != impl:
                ctx.disagree("c16.sort", case, impl, model)
    run_selection_batch(ctx, [selection_case(rng) for _ in range((300 if ctx.quick else 3000) * ctx.scale)])
    # round 10: small haplotag lists with phase sets tying for the largest size
    for i in range((2 if ctx.quick else 12) * ctx.scale):
        check_split_ties(ctx, split_ties_case(rng))
    # exploration
    for i in range((1 if ctx.quick else 3) * ctx.scale):
        explore(ctx, gen_input(rng, ctx.quick, ctx.scale))
    shutil.rmtree(ctx.workdir(), ignore_errors=True)

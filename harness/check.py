#!/venv/bin/python
"""check.py Cxx [--tier quick|thorough] [--replay FILE]   (cwd /verif; env VERIF_SEED, VERIF_TIER)"""
import argparse, importlib, os, sys

sys.path.insert(0, os.path.dirname(os.path.dirname(os.path.abspath(__file__))))
from harness import common  # noqa: E402


def main():
    ap = argparse.ArgumentParser()
    ap.add_argument("prop")
    ap.add_argument("--tier", default=os.environ.get("VERIF_TIER") or "quick", choices=["quick", "thorough"])
    ap.add_argument("--replay", default=None)
    a = ap.parse_args()
    seed = int(os.environ.get("VERIF_SEED", "0") or 0)
    mod = importlib.import_module("harness.props." + a.prop.lower())
    rc = common.run_check(a.prop, a.tier, seed, mod, replay=a.replay, level=getattr(mod, "LEVEL", "proof"))
    sys.exit(rc)


if __name__ == "__main__":
    main()
